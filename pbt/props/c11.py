"""C11 - adding measures and tying notes normalise notation without changing what sounds.

Sub-checks
  add_measures   parts with signatures / existing measures / notes at arbitrary integer
                 positions; the measures afterwards are compared with an interval model.
  pipeline       tie_notes, find_tuplets, fill_rests, sanitize_part alone and in the orders the
                 importers use; sounding notes, measure containment, tie chains and every
                 symbolic duration the library stored are checked after every step.
  estimator      exhaustive: estimate_symbolic_duration(dur, divs) for every dur, one case per
                 divisions value; converted back with exact Fractions.
  tie_split      find_tie_split / order_splits called directly (tie_notes can never reach them,
                 see ASSUMPTIONS).

The reference side (pbt/gen/c11_parts.py: Model, sym_value, TABULATED) is integer / Fraction
arithmetic; no partitura table is used for expected values.
"""

from collections import Counter
from fractions import Fraction

import numpy as np
from hypothesis import strategies as st

import partitura.score as S
import partitura.utils.music as M
from pbt.core import Outcome, SubCheck, SutRaised, call
from pbt.gen.build import build_part
from pbt.gen import c11_parts as G

PROPERTY = "C11"
ENGINES = ["hypothesis", "exhaustive enumeration"]
ASSUMPTIONS = [
    "bar lengths are judged from the first time signature on; bars add_measures creates before a late first signature are only checked for coverage and overlap (no signature is in force there)",
    "cases in which a bar would have to end between two timeline positions (division change inside the bar) are generated but not judged",
    "a stored symbolic duration counts as correct when its exact value differs from the numeric duration by less than 1e-3 * divisions (the estimator's documented tolerance eps); empty dicts / None mean 'no single notated value' and are not judged",
    "notes straddle a division change only when it stands on a bar line of the first signature (then tie_notes has to label each piece with the divisions at its own start; a value stored on a note that still straddles the change is not judged), and rests that fill_rests adds inside a measure containing a division change are not judged (the gap is in mixed units); tie chains in the input are contiguous and of one pitch/voice/staff; fill_rests is only given notes with integer voice and staff (it indexes numpy arrays of them)",
    "orphan grace notes are documented to be attached or removed by sanitize_part and are left out of the before/after comparison",
    "Because GenericNote.symbolic_duration estimates a value whenever none is stored, `note.symbolic_duration is None` is never true for a note inside a Part: the second half of tie_notes (split_note) and the whole of find_tuplets never act. The property does not demand that they act, so this is reported, not judged; find_tie_split/order_splits are therefore exercised directly",
]

EPS = Fraction(1, 1000)
# the estimator compares floats with `< eps`; a hair of slack keeps exact arithmetic from
# flagging a value that sits on the boundary (|value - dur| == eps * divs exactly)
TOL = EPS * (1 + Fraction(1, 10 ** 9))


# ==========================================================================
# helpers
# ==========================================================================
def _build(spec):
    part, objs = build_part(spec)
    if spec.get("beat_mode") == "musical":
        call(part.use_musical_beat)
    elif spec.get("beat_mode") == "musical-custom":
        # user-supplied beats per signature: a bar still lasts what its signature says
        call(part.use_musical_beat, dict(spec.get("mbeats") or {}))
    for dg in spec.get("dangling", []):
        cls = S.Slur if dg["kind"] == "slur" else S.Tuplet
        note = objs.get(dg["note"]) if dg["note"] else None
        if note is None:
            part.add(cls(), dg["t"])
        elif dg["side"] == "start":
            part.add(cls(start_note=note), note.start.t)
        else:
            part.add(cls(end_note=note), None, note.end.t)
    return part, objs


def _measures(part):
    return sorted(((m.start.t, m.end.t, m.number, id(m)) for m in part.iter_all(S.Measure)), key=lambda x: (x[0], x[1]))


def _tuplet_guess_signature(sd, dur, divs):
    """True iff sd is a tuplet guess whose actual_notes is one more than floor(x), with x the exact
    quotient normal_notes * type / (dur/divs) lying within eps above an integer: what
    math.ceil makes of a float that is (or is accepted as) an integer."""
    if not sd or "actual_notes" not in sd or "dots" in sd:
        return False
    try:
        x = sd["normal_notes"] * G.TYPE_Q[sd["type"]] / Fraction(dur, divs)
    except Exception:
        return False
    fl = x.numerator // x.denominator
    return (x - fl) <= EPS and sd["actual_notes"] == fl + 1


def _judge_symbolic(o, sd, dur, divs, where, **detail):
    """Compare a stored symbolic duration with the numeric duration (exact arithmetic)."""
    if not sd:
        return
    try:
        v = G.sym_value(sd) * divs
    except KeyError:
        o.add("symbolic-duration-malformed", sd=dict(sd), where=where, **detail)
        return
    dur = Fraction(dur)
    if abs(v - dur) <= TOL * divs:
        return
    kind = "tuplet-guess-rounded-up" if _tuplet_guess_signature(sd, dur, divs) else "assigned-symbolic-duration-wrong"
    o.add(kind, sd=dict(sd), duration=float(dur), divs=divs, value=float(v), where=where, **detail)


# ==========================================================================
# (a) add_measures
# ==========================================================================
def oracle_add_measures(spec):
    o = Outcome()
    mod = G.Model(spec)
    part, _ = _build(spec)
    musical = spec.get("beat_mode") in ("musical", "musical-custom")
    first, last = mod.first, mod.last
    if part.first_point.t != first or part.last_point.t != last:
        raise AssertionError("model and part disagree on the timeline ends: %r %r" % ((first, last), (part.first_point.t, part.last_point.t)))
    before = _measures(part)
    existing_ids = {m[3]: (m[0], m[1]) for m in before}
    ts_inside = [t for (t, _, _) in mod.timesigs for (s, e) in mod.existing if s < t < e]
    gaps_before = G.uncovered(mod.existing, first, last)
    compound = [(b, bt) for (_, b, bt) in mod.timesigs if b in (6, 9, 12)]
    o.cls("existing-measures", bool(mod.existing))
    o.cls("gap-between-existing-measures", bool(mod.existing) and bool(gaps_before))
    o.cls("signature-change-inside-existing-measure", bool(ts_inside))
    o.cls("musical-beats", musical)
    o.cls("musical-beats-user-supplied", spec.get("beat_mode") == "musical-custom")
    o.cls("existing-measure-numbers-" + str(spec.get("number_style")), bool(mod.existing) and bool(spec.get("number_style")))
    o.cls("musical-beats-compound-signature", musical and bool(compound))
    o.cls("late-first-signature", mod.timesigs[0][0] > first)
    o.cls("division-change", len(mod.divs) > 1)
    o.cls("pickup-like-first-existing-measure", bool(mod.existing) and mod.existing[0][0] == first and mod.ts_at(first) is not None
          and mod.advance(first, G.bar_quarters(mod.ts_at(first))) > mod.existing[0][1])
    o.nontrivial = bool(mod.existing) and bool(gaps_before)

    call(S.add_measures, part)
    after = _measures(part)

    # existing measures keep their extent and stay in the part
    after_ids = {m[3]: (m[0], m[1]) for m in after}
    for mid, ext in existing_ids.items():
        if after_ids.get(mid) != ext:
            o.add("existing-measure-changed", before=list(ext), after=after_ids.get(mid))
    new = [m for m in after if m[3] not in existing_ids]
    for (s, e, num, _) in new:
        if not (isinstance(s, (int, np.integer)) and isinstance(e, (int, np.integer))) or e <= s or s < first or e > last:
            o.add("new-measure-degenerate", start=s, end=e, first=first, last=last)
    # pairwise non-overlapping
    overlap = None
    for a, b in zip(after, after[1:]):
        if b[0] < a[1]:
            overlap = (a[:2], b[:2])
            break
    if overlap:
        o.add("measures-overlap", a=list(overlap[0]), b=list(overlap[1]), ts_inside_existing=ts_inside,
              new_starts_inside_existing=any(s < n[0] < e for n in new for (s, e) in mod.existing))
    # every position of [first, last) is inside a measure
    holes = G.uncovered([(m[0], m[1]) for m in after], first, last)
    if holes:
        o.add("position-not-in-any-measure", holes=holes[:4], first=first, last=last)
    if overlap or holes or o.discs:
        return o

    # bar lengths
    exp = mod.expected_new_measures()
    if exp and exp[-1][1] is None:
        o.excluded.append("bar-end-not-integral")
        o.cls("bar-end-not-integral")
        return o
    exp_by_start = {a: (b, why) for (a, b, why) in exp}
    o.cls("bar-cut-by-signature-change", any(why == "ts" for (_, _, why) in exp))
    o.cls("bar-cut-by-existing-measure", any(why == "existing" for (_, _, why) in exp))
    o.cls("bar-cut-by-end", any(why == "end" for (_, _, why) in exp))
    first_ts = mod.timesigs[0][0]
    for (s, e, num, _) in new:
        if s < first_ts:
            # no signature in force: how add_measures subdivides this stretch is not promised
            o.excluded.append("bar-before-first-signature")
            continue
        if s not in exp_by_start:
            # cannot happen when the measures tile and all earlier bars are right
            o.add("new-bar-unexpected-start", start=s, end=e)
            break
        b, why = exp_by_start[s]
        if e != b:
            ts = mod.ts_at(s)
            full = mod.advance(s, G.bar_quarters(ts))
            o.add("new-bar-wrong-length", start=s, got_end=e, expected_end=b, delimiter=why, ts=list(ts), full_bar_end=float(full),
                  musical=musical, divs=mod.divs_at(s), short_by=b - e)
            break
    # numbering: consecutive in time order, starting at 1
    nums = [m[2] for m in after]
    if nums != list(range(1, len(nums) + 1)):
        o.add("measure-numbers-not-consecutive", numbers=nums[:12], extents=[list(m[:2]) for m in after][:12], number_style=spec.get("number_style"))
    if spec.get("twice") and not o.discs:
        # everything is covered now: a second call leaves the measures (objects, extents, numbers) as they are
        o.cls("add_measures-called-twice")
        call(S.add_measures, part)
        again = _measures(part)
        if again != after:
            o.add("second-add_measures-changes-measures", before=[list(m[:3]) for m in after][:10], after=[list(m[:3]) for m in again][:10])
    return o


def _known_truncated(spec, d):
    return d.kind == "new-bar-wrong-length" and d["detail"]["short_by"] == 1 and not _known_musical(spec, d)


def _known_musical(spec, d):
    return (d.kind == "new-bar-wrong-length" and spec.get("beat_mode") == "musical" and d["detail"]["ts"][0] in (6, 9, 12)
            and d["detail"]["got_end"] > d["detail"]["expected_end"])


def _known_overlap_ts(spec, d):
    return d.kind == "measures-overlap" and bool(d["detail"]["ts_inside_existing"]) and d["detail"]["new_starts_inside_existing"]


# ==========================================================================
# (b) pipeline
# ==========================================================================
def _sounding(part, no_voice=()):
    """Multiset of (onset_div, duration_div, pitch, voice, id) from the part's note array.

    For notes without a voice the array invents a number that depends on the other notes
    (so it legitimately changes when sanitize_part removes an orphan grace note): not compared."""
    na = call(part.note_array)
    return Counter((int(r["onset_div"]), int(r["duration_div"]), int(r["pitch"]), None if str(r["id"]) in no_voice else int(r["voice"]), str(r["id"])) for r in na)


def _spec_sounding(spec):
    byid = {n["id"]: n for n in spec["notes"]}
    out = Counter()
    for n in spec["notes"]:
        if n["kind"] not in ("note", "grace") or n.get("tie_prev"):
            continue
        end = n["t"] + n["dur"]
        cur = n
        while cur.get("tie_next"):
            cur = byid[cur["tie_next"]]
            end = cur["t"] + cur["dur"]
        out[(n["t"], end - n["t"], 12 * (n["octave"] + 1) + {"C": 0, "D": 2, "E": 4, "F": 5, "G": 7, "A": 9, "B": 11}[n["step"]] + (n["alter"] or 0))] += 1
    return out


def _score_like(part, how):
    """The part as fill_rests' `score_data: ScoreLike` (= Part | Score | PartGroup | list of parts / groups)."""
    if how == "score":
        return S.Score([part])
    if how == "list":
        return [part]
    if how == "group":
        g = S.PartGroup(group_name="g")
        g.children = [part]
        part.parent = g
        return g
    return part


def _run_op(part, op, spec=None):
    spec = spec or {}
    if op == "add_measures":
        call(S.add_measures, part)
    elif op == "tie_notes":
        call(S.tie_notes, part)
    elif op == "find_tuplets":
        call(S.find_tuplets, part)
    elif op == "sanitize_part":
        if spec.get("tie_tolerance"):
            call(S.sanitize_part, part, spec["tie_tolerance"])
        else:
            call(S.sanitize_part, part)
    elif op == "fill_rests:mw":
        call(S.fill_rests, _score_like(part, spec.get("fill_arg")), True)
    elif op == "fill_rests:global":
        call(S.fill_rests, _score_like(part, spec.get("fill_arg")), False)
    else:
        raise AssertionError(op)


def oracle_pipeline(spec):
    o = Outcome()
    mod = G.Model(spec)
    part, objs = _build(spec)
    ops = spec["ops"]
    orphan_ids = set(n["id"] for n in spec["notes"] if n.get("orphan"))
    o.cls("ops:" + "+".join(x.split(":")[0] for x in ops))
    for op in ops:
        o.cls("op:" + op)
    o.cls("existing-measures", bool(mod.existing))
    o.cls("gap-between-existing-measures", bool(mod.existing) and bool(G.uncovered(mod.existing, mod.first, mod.last)))
    o.cls("division-change", len(mod.divs) > 1)
    o.cls("note-held-across-division-change", any(n["t"] < c < n["t"] + n["dur"] for n in spec["notes"] for (c, _) in mod.divs[1:]))
    o.cls("musical-beats", spec.get("beat_mode") == "musical")
    o.cls("input-has-tie-chain", any(n.get("tie_next") for n in spec["notes"]))
    o.cls("input-has-explicit-symbolic-duration", any(n.get("sym") and n["kind"] != "grace" for n in spec["notes"]))
    o.cls("orphan-grace-note", bool(orphan_ids))
    o.cls("dangling-slur-or-tuplet", bool(spec.get("dangling")))
    o.cls("operations-in-free-order", bool(spec.get("free_order")))
    o.cls("operation-repeated", len(set(ops)) < len(ops))
    o.cls("unpitched-note", any(n["kind"] == "unpitched" for n in spec["notes"]))
    o.cls("complete-slur", bool(spec.get("slurs")))
    o.cls("complete-tuplet", bool(spec.get("tuplets")))
    o.cls("note-ids-with-hyphen-suffix", bool(spec.get("id_suffix")))
    o.cls("musical-beats-user-supplied", spec.get("beat_mode") == "musical-custom")
    o.cls("existing-measure-numbers-" + str(spec.get("number_style")), bool(mod.existing) and bool(spec.get("number_style")))
    if any(x.startswith("fill_rests") for x in ops):
        o.cls("fill_rests-argument-" + str(spec.get("fill_arg", "part")))
    o.cls("sanitize-with-tie-tolerance", "sanitize_part" in ops and bool(spec.get("tie_tolerance")))

    def strip(c):
        return Counter({k: v for k, v in c.items() if k[4] not in orphan_ids})

    no_voice = set(n["id"] for n in spec["notes"] if n.get("voice") is None)
    before = strip(_sounding(part, no_voice))
    base = Counter()
    for k, v in before.items():
        base[k[:3]] += v
    ref = _spec_sounding(dict(spec, notes=[n for n in spec["notes"] if not n.get("orphan")]))
    if base != ref:
        o.add("note-array-differs-from-input-before-any-operation", got=sorted(base.elements())[:8], expected=sorted(ref.elements())[:8])
        return o
    stored = {}
    for n in part.iter_all(S.GenericNote, include_subclasses=True):
        stored[id(n)] = (n, None if n._sym_dur is None else dict(n._sym_dur), (n.start.t, n.end.t))

    tied = False
    crosses2 = False
    for op in ops:
        meas_before = _measures(part)
        pretied_crossing = False
        if op == "tie_notes":
            bars = [m[0] for m in meas_before]
            for n in part.iter_all(S.Note):
                inner = [b for b in bars if n.start.t < b < n.end.t]
                crosses2 = crosses2 or len(inner) >= 2
                pretied_crossing = pretied_crossing or (bool(inner) and n.tie_next is not None)
            o.cls("tied-note-crosses-barline", pretied_crossing)
            o.cls("slur-end-note-crosses-barline", any(sl.end_note is not None and sl.end_note.start is not None and sl.end_note.end is not None
                                                      and any(sl.end_note.start.t < b < sl.end_note.end.t for b in bars) for sl in part.iter_all(S.Slur)))
        empty_measure = False
        if op.startswith("fill_rests"):
            empty_measure = any(next(part.iter_all(S.GenericNote, m[0], m[1], include_subclasses=True), None) is None for m in meas_before)
            o.cls("fill_rests-with-empty-measure", empty_measure)
        try:
            _run_op(part, op, spec)
        except SutRaised as e:
            o.add(e.kind, text=e.text, op=op, empty_measure=empty_measure, division_change=len(mod.divs) > 1,
                  fill_arg=spec.get("fill_arg") if op.startswith("fill_rests") else None)
            return o
        if op == "tie_notes":
            tied = True
        if op == "add_measures" and len(_measures(part)) != len(meas_before):
            # new bar lines: "within one measure" holds again after the next tie_notes
            tied = False
        # ---- sounding notes ------------------------------------------------
        after = strip(_sounding(part, no_voice))
        if after != before:
            a3, b3 = Counter(), Counter()
            for k, v in after.items():
                a3[k[:3]] += v
            for k, v in before.items():
                b3[k[:3]] += v
            if a3 != b3:
                o.add("sounding-notes-changed", op=op, lost=sorted((b3 - a3).elements())[:6], gained=sorted((a3 - b3).elements())[:6],
                      pretied_note_crosses_barline=pretied_crossing)
            else:
                o.add("note-array-voice-or-id-changed", op=op, lost=sorted((before - after).elements(), key=repr)[:6], gained=sorted((after - before).elements(), key=repr)[:6])
            return o
        # ---- time points stay integral -----------------------------------------
        for tp in part._points:
            if not isinstance(tp.t, (int, np.integer)):
                if float(tp.t) != int(tp.t):
                    o.add("non-integer-time-point-created", op=op, t=float(tp.t))
                    return o
        # ---- measures ----------------------------------------------------------
        meas = _measures(part)
        if op != "add_measures" and [m[:2] + (m[3],) for m in meas] != [m[:2] + (m[3],) for m in meas_before]:
            o.add("measures-changed-by-" + op.split(":")[0], before=[list(m[:2]) for m in meas_before][:8], after=[list(m[:2]) for m in meas][:8])
        tiling = bool(meas) and all(a[1] == b[0] for a, b in zip(meas, meas[1:])) and meas[0][0] <= part.first_point.t and meas[-1][1] >= part.last_point.t
        if op == "add_measures" and not tiling:
            # add_measures' own defects are judged by sub-check add_measures
            o.excluded.append("measures-do-not-tile-after-add_measures")
            o.cls("measures-do-not-tile-after-add_measures")
        if tied and meas and tiling:
            for n in part.iter_all(S.Note):
                if not any(m[0] <= n.start.t and n.end.t <= m[1] for m in meas):
                    o.add("note-not-within-one-measure", op=op, note=[n.start.t, n.end.t], id=n.id,
                          measures=[list(m[:2]) for m in meas if m[1] > n.start.t and m[0] < n.end.t][:4])
                    break
        # ---- tie chains ----------------------------------------------------------
        in_part = set(id(n) for n in part.iter_all(S.GenericNote, include_subclasses=True))
        for n in part.iter_all(S.Note, include_subclasses=True):
            nx = n.tie_next
            if nx is not None:
                if id(nx) not in in_part or nx.start is None:
                    o.add("tie-to-note-outside-part", op=op, id=n.id)
                    break
                if nx.tie_prev is not n:
                    o.add("tie-links-asymmetric", op=op, id=n.id, next=nx.id)
                    break
                if nx.start.t != n.end.t:
                    o.add("tie-chain-not-contiguous", op=op, id=n.id, end=n.end.t, next_start=nx.start.t)
                    break
                if (nx.step, nx.alter or 0, nx.octave) != (n.step, n.alter or 0, n.octave) or nx.voice != n.voice or nx.staff != n.staff:
                    o.add("tie-chain-mixed-pitch-voice-staff", op=op, a=[n.step, n.alter, n.octave, n.voice, n.staff], b=[nx.step, nx.alter, nx.octave, nx.voice, nx.staff])
                    break
            if n.tie_prev is not None and n.tie_prev.tie_next is not n:
                o.add("tie-links-asymmetric", op=op, id=n.id, prev=n.tie_prev.id)
                break
        # ---- symbolic durations the library stored ----------------------------------
        for n in part.iter_all(S.GenericNote, include_subclasses=True):
            if isinstance(n, S.GraceNote):
                continue
            sd = None if n._sym_dur is None else dict(n._sym_dur)
            ext = (n.start.t, n.end.t)
            old = stored.get(id(n))
            if old is not None and old[1] == sd and old[2] == ext:
                continue  # neither value nor extent touched since the last look: not the library's doing
            stored[id(n)] = (n, sd, ext)
            if not sd:
                o.cls("library-stored-empty-symbolic-duration", sd is not None)
                continue
            if isinstance(n, S.Rest) and old is None and any(m[0] <= n.start.t < m[1] and any(m[0] < c < m[1] for (c, _) in mod.divs[1:]) for m in meas):
                # a rest filled into a measure that contains a division change: the gap may be in mixed units
                o.excluded.append("rest-added-in-measure-with-division-change")
                continue
            if any(n.start.t < c < n.end.t for (c, _) in mod.divs[1:]):
                # a value stored on a note that (still) straddles a division change: its numeric duration is in mixed units
                o.excluded.append("symbolic-duration-of-note-straddling-division-change")
                continue
            o.cls("library-stored-symbolic-duration")
            if isinstance(n, S.Rest) and old is None and n.end.t <= n.start.t:
                o.add("added-rest-ends-before-it-starts", op=op, extent=[float(n.start.t), float(n.end.t)], sd=sd, staff=n.staff, voice=n.voice)
                return o
            _judge_symbolic(o, sd, n.end.t - n.start.t, mod.divs_at(n.start.t), where=op, cls=type(n).__name__, extent=[float(n.start.t), float(n.end.t)],
                            first_divs=mod.divs[0][1])
            if o.discs:
                return o
        if o.discs:
            return o
    needs_split = any(not isinstance(n, S.GraceNote) and not n.symbolic_duration for n in part.iter_all(S.Note))
    # sanitize_part removes incomplete structures
    if "sanitize_part" in ops:
        for cls in (S.Slur, S.Tuplet):
            for x in part.iter_all(cls):
                if x.start_note is None or x.end_note is None:
                    o.add("incomplete-structure-survives-sanitize", cls=cls.__name__)
                    break
    o.cls("note-crosses-two-barlines", crosses2)
    o.cls("note-left-without-single-notated-value", needs_split)
    o.nontrivial = crosses2 or needs_split or (bool(mod.existing) and bool(G.uncovered(mod.existing, mod.first, mod.last)))
    return o


def _known_fill_rests_empty(spec, d):
    return d.kind == "sut-raised:IndexError@score.py:_fill_rests_within_measure" and d["detail"].get("empty_measure") is True


def _known_fill_rests_first_divs(spec, d):
    """Rests get their symbolic duration from the part's first divisions value."""
    if d.kind not in ("assigned-symbolic-duration-wrong", "tuplet-guess-rounded-up"):
        return False
    det = d["detail"]
    if not str(det.get("where", "")).startswith("fill_rests") or det.get("cls") != "Rest" or det["divs"] == det["first_divs"]:
        return False
    try:
        v = G.sym_value(det["sd"]) * det["first_divs"]
    except Exception:
        return False
    return abs(v - Fraction(det["duration"])) <= TOL * det["first_divs"] or _tuplet_guess_signature(det["sd"], Fraction(det["duration"]), det["first_divs"])


def _known_fill_rests_scorelike(spec, d):
    """fill_rests(score_data: ScoreLike) only unpacks Score; a list of parts or a PartGroup is treated as a Part."""
    return d.kind == "sut-raised:AttributeError@score.py:fill_rests" and d["detail"].get("fill_arg") in ("list", "group") and "has no attribute 'measures'" in d["detail"].get("text", "")


def _known_fractional_point(spec, d):
    """Composite rests whose pieces are not integral in the divisions in force (measurewise fill_rests only)."""
    return d.kind == "non-integer-time-point-created" and d["detail"].get("op") == "fill_rests:mw"


def _known_rest_backwards(spec, d):
    """Empty-staff branch of _fill_rests_within_measure: composite pieces are all measured from the measure start."""
    return d.kind == "added-rest-ends-before-it-starts" and d["detail"].get("op") == "fill_rests:mw"


def _known_tie_dropped(spec, d):
    """tie_notes overwrites the tie_next of an already tied note that it splits at a bar line."""
    det = d["detail"]
    if d.kind != "sounding-notes-changed" or det.get("op") != "tie_notes" or not det.get("pretied_note_crosses_barline"):
        return False
    # signature of the defect: notes only get shorter (the tail of a chain is cut off), nothing else changes
    lost, gained = det["lost"], det["gained"]
    return len(lost) == len(gained) and all(l[0] == g[0] and l[2] == g[2] and g[1] < l[1] for l, g in zip(lost, gained))


def _known_tuplet_guess(spec, d):
    return d.kind == "tuplet-guess-rounded-up"


# ==========================================================================
# (c) estimator, exhaustive
# ==========================================================================
def enum_estimator(tier):
    if tier == "thorough":
        return [{"divs": d, "max_quarters": 32} for d in range(1, 961)]
    return [{"divs": d, "max_quarters": 8} for d in list(range(1, 97)) + [120, 240, 480, 960]]


def oracle_estimator(spec):
    o = Outcome()
    divs = spec["divs"]
    hi = spec["max_quarters"] * divs
    tab = {}
    for q, (ty, dots) in G.TABULATED.items():
        v = q * divs
        if v.denominator == 1 and 1 <= v <= hi:
            tab[int(v)] = (ty, dots)
    seen = Counter()
    first = {}

    def note(kind, **kw):
        seen[kind] += 1
        if kind not in first:
            first[kind] = kw

    n_tuplet = n_empty = n_plain = n_composite = 0
    for dur in range(1, hi + 1):
        sd = call(M.estimate_symbolic_duration, dur, divs)
        # the documented option return_com_durations=True: the same answer, or a tuple of values to be tied
        # whose sum is the duration ("The returned tuple should be tied notes")
        com = call(M.estimate_symbolic_duration, dur, divs, return_com_durations=True)
        if isinstance(com, tuple):
            n_composite += 1
            if sd:
                note("composite-answer-although-single-value-exists", dur=dur, single=dict(sd), composite=[dict(x) for x in com])
            try:
                tot = sum(G.sym_value(x) for x in com) * divs
                if len(com) < 2 or abs(tot - dur) > TOL * divs:
                    note("composite-durations-do-not-add-up", dur=dur, composite=[dict(x) for x in com], value=float(tot))
            except (KeyError, TypeError):
                note("symbolic-duration-malformed", dur=dur, sd=repr(com)[:120])
        elif com != sd:
            note("return_com_durations-changes-single-answer", dur=dur, without=repr(sd)[:80], with_option=repr(com)[:80])
        # the argument types callers pass: numpy integers from note arrays, floats
        if dur % 5 == 0:
            for alt in (np.int32(dur), np.int64(dur), float(dur)):
                if call(M.estimate_symbolic_duration, alt, divs) != sd:
                    note("estimate-depends-on-argument-type", dur=dur, type=type(alt).__name__)
            if call(M.estimate_symbolic_duration, dur, np.int64(divs)) != sd:
                note("estimate-depends-on-argument-type", dur=dur, type="divs:int64")
        if not isinstance(sd, dict):
            note("estimate-returns-non-dict", dur=dur, got=repr(sd)[:80])
            continue
        if not sd:
            n_empty += 1
            if dur in tab:
                note("estimate-empty-for-tabulated-value", dur=dur, expected=list(tab[dur]))
            continue
        try:
            v = G.sym_value(sd) * divs
        except KeyError:
            note("symbolic-duration-malformed", dur=dur, sd=dict(sd))
            continue
        if "actual_notes" in sd:
            n_tuplet += 1
        else:
            n_plain += 1
        back = call(M.symbolic_to_numeric_duration, sd, divs)
        if abs(Fraction(float(back)) - v) > Fraction(1, 10 ** 9) * (1 + v):
            note("symbolic_to_numeric_duration-wrong", dur=dur, sd=dict(sd), got=float(back), expected=float(v))
        if dur in tab:
            if v != dur:
                note("estimate-wrong-for-tabulated-value", dur=dur, sd=dict(sd), value=float(v), expected=list(tab[dur]))
        elif abs(v - dur) > TOL * divs:
            if _tuplet_guess_signature(sd, dur, divs):
                note("tuplet-guess-rounded-up", dur=dur, sd=dict(sd), value=float(v))
            else:
                note("estimate-not-inverse", dur=dur, sd=dict(sd), value=float(v))
    for kind, n in sorted(seen.items()):
        o.add(kind, divs=divs, count=n, evaluated=hi, **first[kind])
    o.cls("has-tabulated-values", bool(tab))
    o.cls("has-tuplet-guesses", n_tuplet > 0)
    o.cls("has-empty-answers", n_empty > 0)
    o.cls("has-composite-answers", n_composite > 0)
    o.nontrivial = n_tuplet > 0 and n_empty > 0 and bool(tab)
    return o


# ==========================================================================
# (d) find_tie_split / order_splits
# ==========================================================================
def strat_tie_split(tier):
    big = 24 if tier == "quick" else 40

    @st.composite
    def s(draw):
        divs = draw(st.one_of(st.sampled_from([1, 2, 3, 4, 6, 8, 12, 16, 24, 48, 96, 480]), st.integers(1, 64)))
        unit = divs
        while unit % 2 == 0:
            unit //= 2
        start = draw(st.one_of(st.just(0), st.integers(0, 64 * unit), st.integers(0, 8).map(lambda k: k * divs)))
        mode = draw(st.integers(0, 3))
        if draw(st.integers(0, 7)) == 0:
            # very long values on the quarter grid: need three tied values (41..76 quarters), or four (77, 79, 81: slow, rare)
            dur = draw(st.one_of(st.integers(41, 76), st.integers(41, 76).map(lambda x: x), st.integers(41, 76).map(lambda x: x + 0), st.sampled_from([77, 79, 81])))
            return {"start": draw(st.sampled_from([0, 0, 1, 4, 7])), "dur": dur, "divs": 1, "max_splits": 3}
        if mode == 0:
            n = draw(st.integers(1, big))
            dur = n * unit
        elif mode == 1:
            dur = draw(st.integers(1, big * unit))
        else:
            # long values (more than a whole note) on a coarse grid: need two or three ties
            divs = draw(st.sampled_from([1, 2, 4, 8, 3, 6, 12]))
            unit = divs
            while unit % 2 == 0:
                unit //= 2
            dur = draw(st.integers(4 * divs + 1, 4 * divs + big * unit))
        return {"start": start, "dur": dur, "divs": divs, "max_splits": draw(st.sampled_from([3, 3, 3, 1, 2, 0]))}

    return s()


def _ref_order_splits(start, end, unit):
    """All multiples of `unit` strictly between start and end; coarser metrical level
    (higher power of two) first, ascending within a level (docstring examples + comment)."""
    xs = [x for x in range((start // unit + 1) * unit, end, unit)]

    def level(x):
        k = x // unit
        v = 0
        while k % 2 == 0 and k > 0:
            k //= 2
            v += 1
        return v

    return sorted(xs, key=lambda x: (-level(x), x))


def _ref_tabulated_split(start, end, divs, max_splits):
    """Smallest number of pieces (<= max_splits + 1) of plain notated values (type x 0..3 dots) that tile
    [start, end) with integer split points, or None. Exact arithmetic, no partitura table."""
    vals = sorted(set(int(q * divs) for q in G.TABULATED if (q * divs).denominator == 1 and 0 < q * divs <= end - start))
    reach = {start}
    for k in range(1, max_splits + 2):
        reach = set(p + v for p in reach for v in vals if p + v <= end)
        if end in reach:
            return k
    return None


def oracle_tie_split(spec):
    o = Outcome()
    start, dur, divs, ms = spec["start"], spec["dur"], spec["divs"], spec["max_splits"]
    end = start + dur
    unit = call(M.find_smallest_unit, divs)
    u = divs
    while u % 2 == 0:
        u //= 2
    if unit != u:
        o.add("find_smallest_unit-wrong", got=int(unit), expected=u)
        return o
    got = [int(x) for x in call(M.order_splits, start, end, unit)]
    exp = _ref_order_splits(start, end, u)
    if got != exp:
        o.add("order_splits-wrong", got=got[:16], expected=exp[:16])
    res = call(M.find_tie_split, start, end, divs, ms)
    q = Fraction(dur, divs)
    o.cls("single-tabulated-value", q in G.TABULATED)
    o.cls("no-solution", res is None)
    # on a power-of-two divisions value every integer is a legal split point: when the duration can be tiled by
    # at most max_splits + 1 plain notated values the (exhaustive) search has to come back with a solution
    need = _ref_tabulated_split(start, end, divs, ms) if u == 1 else None
    if need is not None:
        o.cls("tiling-by-%d-plain-values-exists" % need)
    if res is None:
        if q in G.TABULATED:
            o.add("tie-split-misses-single-value", expected=list(G.TABULATED[q]))
        elif need is not None:
            o.add("tie-split-misses-existing-solution", pieces_needed=need, max_splits=ms)
        return o
    o.cls("pieces-%d" % min(len(res), 4))
    o.nontrivial = len(res) >= 2
    if len(res) > ms + 1:
        o.add("tie-split-too-many-pieces", n=len(res), max_splits=ms)
    pos = start
    for (a, b, sd) in res:
        if a != pos or b <= a:
            o.add("tie-split-not-contiguous", pieces=[[int(x[0]), int(x[1])] for x in res])
            return o
        pos = b
        if not sd:
            o.add("tie-split-piece-without-symbolic-duration", piece=[int(a), int(b)])
            continue
        _judge_symbolic(o, sd, b - a, divs, where="find_tie_split", piece=[int(a), int(b)])
    if pos != end:
        o.add("tie-split-does-not-reach-end", pieces=[[int(x[0]), int(x[1])] for x in res], end=end)
    if q in G.TABULATED and len(res) != 1:
        o.add("tie-split-splits-a-single-value", pieces=[[int(x[0]), int(x[1])] for x in res])
    return o


# ==========================================================================
SUBCHECKS = [
    SubCheck(
        "add_measures",
        oracle_add_measures,
        strategy=lambda tier: G.part_for_measures(tier),
        budget={"quick": 200, "thorough": 3000},
        rule="parts with 1-3 time signatures on/off the bar grid, any divisions (incl. a division change), 0-6 existing measures anywhere (adjacent, gaps, around a signature change) numbered consecutively / not at all / arbitrarily, add_measures called once or twice, default and user-supplied musical beats, notes/rests at arbitrary integer positions, notated/musical beats; measures after add_measures compared with an interval model (non-overlap, coverage of [first,last), existing untouched, bar length by signature in force unless cut by change/existing/end, numbers 1..n); non-trivial = existing measures with at least one gap to fill",
        known={
            "bar-end-truncated": _known_truncated,
            "musical-beats-bar-length": _known_musical,
            "overlap-signature-inside-existing": _known_overlap_ts,
        },
        floors={"gap-between-existing-measures": 0.15, "signature-change-inside-existing-measure": 0.03, "musical-beats": 0.15,
                "existing-measure-numbers-none": 0.04, "existing-measure-numbers-arbitrary": 0.03, "musical-beats-user-supplied": 0.02, "add_measures-called-twice": 0.1},
    ),
    SubCheck(
        "pipeline",
        oracle_pipeline,
        strategy=lambda tier: G.part_for_pipeline(tier),
        budget={"quick": 200, "thorough": 3000},
        rule="same part generator plus tie chains, explicit symbolic durations, grace notes, unpitched notes, complete and dangling slurs/tuplets, note ids n1 / n1-1; tie_notes / find_tuplets / fill_rests(measurewise|global; given the Part, a Score, a list, a PartGroup) / sanitize_part(tie_tolerance 0,1,4) alone, in importer order after add_measures, and in free orders with repetitions; after every step: note-array multiset (onset_div, duration_div, pitch, voice, id) unchanged, pitched notes within one measure once tied, tie chains contiguous and uniform, stored symbolic durations exact (Fractions); non-trivial = a note crossing >=2 bar lines, or a note left without a single notated value, or a gap between existing measures",
        known={
            "fill-rests-empty-measure": _known_fill_rests_empty,
            "fill-rests-first-divisions": _known_fill_rests_first_divs,
            "tuplet-guess-ceil": _known_tuplet_guess,
            "tie-notes-drops-existing-tie": _known_tie_dropped,
            "fill-rests-fractional-time-point": _known_fractional_point,
            "fill-rests-empty-staff-composite": _known_rest_backwards,
            "fill-rests-rejects-list-and-part-group": _known_fill_rests_scorelike,
        },
        floors={"op:tie_notes": 0.3, "op:fill_rests:mw": 0.1, "op:sanitize_part": 0.2, "note-crosses-two-barlines": 0.03,
                "operations-in-free-order": 0.1, "operation-repeated": 0.08, "unpitched-note": 0.08, "complete-slur": 0.08, "note-ids-with-hyphen-suffix": 0.1,
                "fill_rests-argument-score": 0.04, "sanitize-with-tie-tolerance": 0.05},
    ),
    SubCheck(
        "estimator",
        oracle_estimator,
        enumerate=enum_estimator,
        rule="EXHAUSTIVE, one case per divisions value: quick divs 1..96 and 120/240/480/960 with every dur in 1..8*divs (100 cases = 51,648 estimator calls); thorough divs 1..960 with every dur in 1..32*divs (960 cases = 14,760,960 calls); answer empty, or exact Fraction value within 1e-3*divs of dur and exactly dur for the 44 tabulated type x dots values (which must not be answered empty); symbolic_to_numeric_duration compared with the exact value; non-trivial = the divisions value has tabulated, tuplet-guess and empty answers",
        known={"tuplet-guess-ceil": _known_tuplet_guess},
    ),
    SubCheck(
        "tie_split",
        oracle_tie_split,
        strategy=strat_tie_split,
        budget={"quick": 150, "thorough": 1500},
        rule="find_tie_split(start, start+dur, divs, max_splits 0..3) and order_splits called directly (durations needing one to four tied values): pieces contiguous from start to end, at most max_splits+1, each with a stored symbolic duration that is exact; a single tabulated value is returned unsplit; order_splits equals the documented metrical ordering of all grid points strictly inside; non-trivial = solution with >= 2 pieces",
        known={"tuplet-guess-ceil": _known_tuplet_guess},
        floors={"pieces-3": 0.04},
    ),
]
