"""C13 - a piano roll shows exactly the given notes, in their cells, with their velocity.

Code under test: ``compute_pianoroll`` / ``_make_pianoroll`` /
``compute_pitch_class_pianoroll`` / ``pianoroll_to_notearray`` (partitura/utils/music.py).

The expected roll comes from ``pbt/ref/c13_pianoroll.py`` (exact Fraction arithmetic,
no partitura code).  Every case is a JSON spec: note rows carry integer grid counts
``k`` (time = k / (time_div * m) for float columns, time = k for div/tick columns),
the oracle builds the structured numpy array from them.

Rounding rule (derived from the code, the generators never produce an exact .5 tie):
origin t0 = first onset with remove_silence, else min(0, first onset); a note starts in
frame round(time_div * (onset - t0)) and lasts max(1, round(time_div * duration)) frames.
"""

from fractions import Fraction

import numpy as np
import scipy.sparse as sp
from hypothesis import strategies as st

import warnings

import partitura.performance as PF
import partitura.score as SC
import partitura.utils.music as M
from pbt.core import Outcome, SubCheck, SutRaised, call
from pbt.ref import c13_pianoroll as R

PROPERTY = "C13"
ENGINES = ["hypothesis", "independent reference rasteriser (Fraction arithmetic)"]
ASSUMPTIONS = [
    "rounding rule taken from the code: origin t0 = smallest onset (remove_silence) or min(0, smallest onset); first frame = nearest(time_div*(onset-t0)); length = max(1, nearest(time_div*duration)) frames; generated times lie on a grid k/(time_div*m), m in {1,3,5,15}, so no rounding is an exact .5 tie",
    "time_div='auto' means 8 frames per beat/quarter/second and 1 per div/tick; time_unit='auto' is only generated when the array has a single time unit or the documented default (beat / sec)",
    "columns without end_time = last offset frame (before note separation) plus time_margin*time_div on both sides; with end_time: ceil(time_div*(end_time-t0)) plus time_margin*time_div on both sides",
    "piano_range together with pitch_margin > -1 is only checked for totality and row-order independence (documentation contradictory)",
    "end_time == last offset exactly is only generated when all times are dyadic (float arithmetic exact); otherwise end_time exceeds the last offset by a non-integer number of frames (odd denominator)",
    "in onset_only mode the offset column of the index rows may be onset+1 or the note's full extent",
    "index rows of notes outside 21..108 with piano_range: vertical position not judged",
    "velocities are 1..127 (a note with velocity 0 is a MIDI note-off and cannot be shown)",
    "pianoroll_to_notearray: order of the returned rows and the ids are not demanded (compared as sorted lists)",
]

SCORE_UNITS = ["beat", "quarter", "div"]
PERF_UNITS = ["sec", "tick"]
INT_UNITS = ("div", "tick")
POW2 = (1, 2, 4, 8, 16)
EDGE_PITCHES = [0, 1, 20, 21, 22, 59, 60, 61, 107, 108, 109, 126, 127]


# ------------------------------------------------------------------ generator
def _flag(draw, p_true=0.5):
    # shrinks towards False
    return draw(st.integers(0, 99)) >= 100 - int(p_true * 100)


@st.composite
def _case(draw, tier, pc=False):
    big = tier == "thorough"
    family = draw(st.sampled_from(["score", "perf"]))
    # what is handed over: the structured array, a view of it (every second row of a larger array / other
    # field order), or an object of the documented types built from the same notes
    container = draw(st.sampled_from(["array", "array", "array", "strided-view", "other-field-order", "object", "object"]))
    as_object = container == "object"
    fam_units = SCORE_UNITS if family == "score" else PERF_UNITS
    mask = draw(st.integers(1, 2 ** len(fam_units) - 1))
    if as_object and family == "perf":
        mask |= 1  # a performed part is rasterised in seconds
    units = [u for i, u in enumerate(fam_units) if (mask >> i) & 1]
    default = "beat" if family == "score" else "sec"
    choices = list(units)
    if len(units) == 1 or default in units:
        choices.append("auto")
    if as_object and family == "perf":
        choices = ["sec", "auto"]
    time_unit = draw(st.sampled_from(choices))
    sel = (default if default in units else units[0]) if time_unit == "auto" else time_unit
    time_div = draw(st.sampled_from(["auto", "auto", 1, 2, 3, 4, 5, 8, 10, 12, 16]))
    td = (1 if sel in INT_UNITS else 8) if time_div == "auto" else time_div
    m = draw(st.sampled_from([1, 1, 3, 5, 15]))

    piano_range = (not pc) and _flag(draw, 0.25)
    n = draw(st.integers(1, 24 if big else 8))
    pool = draw(st.lists(st.integers(21 if piano_range else 0, 108 if piano_range else 127), min_size=1, max_size=3))
    if pc:
        pool = pool[:2] + [(pool[0] + 12 * draw(st.integers(1, 4))) % 128]
    pitch = st.one_of(st.sampled_from(pool), st.sampled_from(pool), st.sampled_from(EDGE_PITCHES), st.integers(0, 127))
    has_vel = _flag(draw, 0.7)
    has_ch = _flag(draw, 0.4)
    negative = _flag(draw, 0.28) and not as_object  # performed notes and score parts start at or after 0
    p_zero = 0.0 if (as_object and family == "score") else 0.1  # a score part has no zero-length notes
    span = 80 if big else 40

    def times(u):
        if u in INT_UNITS:
            on = draw(st.integers(0, max(3, span // td)))
            du = 0 if _flag(draw, p_zero) else draw(st.integers(1, max(2, 12 // td)))
            if negative:
                on -= 2
        else:
            on = draw(st.integers(0, span * m))
            du = 0 if _flag(draw, p_zero) else draw(st.one_of(st.integers(1, 12 * m), st.integers(1, 3).map(lambda k: k * m)))
            if negative:
                on -= 7 * m + 1
        return [on, du]

    notes = []
    for i in range(n):
        ch = draw(st.sampled_from([0, 0, 1, 9, 9, 15])) if i > 0 else draw(st.sampled_from([0, 1, 15]))
        notes.append(
            {
                "p": draw(pitch),
                "v": draw(st.one_of(st.integers(1, 127), st.sampled_from([1, 64, 127]))),
                "c": ch,
                "t": [times(u) for u in units],
            }
        )
    # exact duplicates in (pitch, onset) with another velocity: the collision rule
    if n >= 2 and _flag(draw, 0.25):
        a = draw(st.integers(0, n - 1))
        b = draw(st.integers(0, n - 1))
        if a != b:
            notes[b]["p"] = notes[a]["p"]
            notes[b]["t"] = [list(x) for x in notes[a]["t"]]
            if _flag(draw, 0.5):
                notes[b]["t"][units.index(sel)][1] = draw(st.integers(0 if p_zero else 1, 6))
    if _flag(draw, 0.2):
        k = units.index(sel)
        notes.sort(key=lambda x: x["t"][k][0])
    perm = list(draw(st.permutations(list(range(n)))))

    exact_ok = sel in INT_UNITS or (m == 1 and td in POW2)
    modes = ["none", "none", "loose"] + (["exact", "exact"] if exact_ok else [])
    emode = draw(st.sampled_from(modes))
    if emode == "none":
        end = None
    elif emode == "exact":
        end = {"mode": "exact", "extra": [draw(st.sampled_from([0, 0, 0, 1, 2, 5])), 1]}
    else:
        d = draw(st.sampled_from([3, 5]))
        a = draw(st.integers(1, 4 * d).filter(lambda x: x % d != 0))
        end = {"mode": "loose", "extra": [a, d]}

    pitch_margin = draw(st.sampled_from([-1, -1, -1, 0, 1, 2, 3]))
    if piano_range and pitch_margin > -1 and not _flag(draw, 0.15):
        pitch_margin = -1
    spec = {
        "family": family,
        "units": units,
        "time_unit": time_unit,
        "time_div": time_div,
        "m": m,
        "float_dtype": draw(st.sampled_from(["f4", "f4", "f8"])),
        "extra_columns": _flag(draw, 0.3),
        "has_vel": has_vel,
        "has_ch": has_ch,
        "notes": notes,
        "perm": perm,
        "onset_only": _flag(draw, 0.3),
        "note_separation": _flag(draw, 0.4),
        "pitch_margin": -1 if pc else pitch_margin,
        "time_margin": draw(st.sampled_from([0, 0, 0, 1, 2])),
        "piano_range": piano_range,
        "remove_silence": _flag(draw, 0.5),
        "remove_drums": True if pc else _flag(draw, 0.6),
        "binary": _flag(draw, 0.3),
        "return_idxs": _flag(draw, 0.6),
        "end": end,
        # options that hold their documented default are left out of the call
        "omit_defaults": _flag(draw, 0.5),
        # what is handed over: the structured array, a view of it (every second row of a larger array /
        # other field order), or an object of the documented types built from the same notes
        "container": container,
        "object_kind": draw(st.integers(0, 2)),
    }
    if pc:
        spec["normalize"] = _flag(draw, 0.5)
    return spec


def strat_raster(tier):
    return _case(tier, pc=False)


def strat_pc(tier):
    return _case(tier, pc=True)


# ------------------------------------------------------------------ spec -> live objects
def _selected(spec):
    units = spec["units"]
    fam_default = "beat" if spec["family"] == "score" else "sec"
    if spec["time_unit"] == "auto":
        sel = fam_default if fam_default in units else units[0]
    else:
        sel = spec["time_unit"]
    if spec["time_div"] == "auto":
        td = 1 if sel in INT_UNITS else 8
    else:
        td = int(spec["time_div"])
    return sel, td


def _value(unit, k, td, m):
    return Fraction(k) if unit in INT_UNITS else Fraction(k, td * m)


DEFAULTS = dict(
    time_unit="auto",
    time_div="auto",
    onset_only=False,
    note_separation=False,
    pitch_margin=-1,
    time_margin=0,
    return_idxs=False,
    piano_range=False,
    remove_drums=True,
    remove_silence=True,
    end_time=None,
    binary=False,
    normalize=True,
)


def _omit_defaults(o, spec, kw):
    """Drop the keyword arguments that carry their documented default (when the case asks for it)."""
    if not spec.get("omit_defaults"):
        return kw
    out = {}
    for k, v in kw.items():
        if v is DEFAULTS[k] or (type(v) is type(DEFAULTS[k]) and v == DEFAULTS[k]):
            o.cls("default-omitted:" + k)
        else:
            out[k] = v
    o.cls("defaults-omitted")
    return out


PC_SPELL = [("C", 0), ("C", 1), ("D", 0), ("E", -1), ("E", 0), ("F", 0), ("F", 1), ("G", 0), ("A", -1), ("A", 0), ("B", -1), ("B", 0)]
OBJECT_KINDS = {"perf": ["ppart", "performance", "performance-of-two-parts"], "score": ["part", "score", "list-of-parts"]}


def build_object(spec, order):
    """An object of the documented input types holding the notes of the case in `order`, together with the
    effective spec (the columns its note array has) and the time_unit to pass; None when the notes cannot be
    put into such an object (negative onsets, zero durations in a score part, tick/second unit not derivable)."""
    sel, td = _selected(spec)
    m = spec["m"]
    k = spec["units"].index(sel)
    notes = [spec["notes"][i] for i in order]
    if any(n["t"][k][0] < 0 for n in notes):
        return None
    kind = OBJECT_KINDS[spec["family"]][spec.get("object_kind", 0)]
    if spec["family"] == "perf":
        if sel != "sec":
            return None
        dicts = []
        for i, n in zip(order, notes):
            on = _value(sel, n["t"][k][0], td, m)
            du = _value(sel, n["t"][k][1], td, m)
            dicts.append(dict(id="n%d" % i, midi_pitch=n["p"], note_on=float(on), note_off=float(on + du), velocity=n["v"], channel=n["c"], track=0))
        if kind == "ppart":
            obj = PF.PerformedPart(dicts)
        elif kind == "performance":
            obj = PF.Performance(PF.PerformedPart(dicts))
        else:
            h = (len(dicts) + 1) // 2
            parts = [PF.PerformedPart(dicts[:h], id="A")] + ([PF.PerformedPart(dicts[h:], id="B")] if dicts[h:] else [])
            obj = PF.Performance(parts)
        eff = dict(spec, units=["sec"], has_vel=True, has_ch=True, notes=[dict(n, t=[n["t"][k]]) for n in spec["notes"]])
        return obj, eff, kind
    if any(n["t"][k][1] <= 0 for n in notes):
        return None
    # a part without time signature: a beat is a quarter; quarter = td*m divs puts the grid k/(td*m) on whole divs
    qd = 4 if sel == "div" else td * m
    def one_part(pid, items):
        part = SC.Part(pid, quarter_duration=qd)
        for i, n in items:
            step, alter = PC_SPELL[n["p"] % 12]
            on, du = n["t"][k]
            part.add(SC.Note(step=step, octave=n["p"] // 12 - 1, alter=alter, id="n%d" % i, voice=1 + i % 3), on, on + du)
        return part
    items = list(zip(order, notes))
    if kind == "part":
        obj = one_part("P0", items)
    else:
        h = (len(items) + 1) // 2
        parts = [one_part("P0", items[:h])] + ([one_part("P1", items[h:])] if items[h:] else [])
        obj = SC.Score(parts) if kind == "score" else parts
    eff = dict(spec, units=[sel], has_vel=False, has_ch=False, notes=[dict(n, t=[n["t"][k]]) for n in spec["notes"]])
    if spec["time_unit"] == "auto" and sel == "div":
        eff["time_unit"] = "div"  # "auto" on a part is the beat
    return obj, eff, kind


def object_order(obj):
    """Original note numbers in the row order of the object's own note array (the 'input order' of an object)."""
    with warnings.catch_warnings():
        warnings.simplefilter("ignore")
        na = call(M.ensure_notearray, obj)
    return [int(str(x).split("n")[-1]) for x in na["id"]]


def present(arr, spec):
    """The array as a strided view of a larger one, or with its fields in another order."""
    how = spec.get("container", "array")
    if how == "strided-view":
        big = np.zeros(2 * len(arr), dtype=arr.dtype)
        big[::2] = arr
        if len(arr):
            big[1::2] = arr[::-1]
            big["pitch"][1::2] = (big["pitch"][1::2] + 7) % 128
        return big[::2]
    if how == "other-field-order":
        names = list(arr.dtype.names)[::-1]
        out = np.zeros(len(arr), dtype=[(nm, arr.dtype[nm]) for nm in names])
        for nm in names:
            out[nm] = arr[nm]
        return out
    return arr


def build_array(spec, order):
    sel, td = _selected(spec)
    m = spec["m"]
    fdt = spec["float_dtype"]
    dt = []
    for u in spec["units"]:
        t = "i4" if u in INT_UNITS else fdt
        dt += [("onset_" + u, t), ("duration_" + u, t)]
    dt.append(("pitch", "i4"))
    if spec["extra_columns"]:
        dt.append(("voice" if spec["family"] == "score" else "track", "i4"))
    if spec["has_vel"]:
        dt.append(("velocity", "i4"))
    if spec["has_ch"]:
        dt.append(("channel", "i4"))
    if spec["extra_columns"]:
        dt.append(("id", "U16"))
    arr = np.zeros(len(order), dtype=dt)
    for r, i in enumerate(order):
        nt = spec["notes"][i]
        for u, (on, du) in zip(spec["units"], nt["t"]):
            arr["onset_" + u][r] = float(_value(u, on, td, m))
            arr["duration_" + u][r] = float(_value(u, du, td, m))
        arr["pitch"][r] = nt["p"]
        if spec["has_vel"]:
            arr["velocity"][r] = nt["v"]
        if spec["has_ch"]:
            arr["channel"][r] = nt["c"]
        if spec["extra_columns"]:
            arr["id"][r] = "n%d" % i
            arr[dt[2 * len(spec["units"]) + 1][0]][r] = 1 + i % 3
    return arr


class Layout(object):
    """Everything the reference says about one call (for one row order)."""

    def __init__(self, spec, order, remove_drums):
        sel, td = _selected(spec)
        self.sel, self.td = sel, td
        k = spec["units"].index(sel)
        m = spec["m"]
        kept = [i for i in order if not (spec["has_ch"] and remove_drums and spec["notes"][i]["c"] == 9)]
        self.kept = kept
        self.notes = [
            (
                spec["notes"][i]["p"],
                _value(sel, spec["notes"][i]["t"][k][0], td, m),
                _value(sel, spec["notes"][i]["t"][k][1], td, m),
                spec["notes"][i]["v"],
            )
            for i in kept
        ]
        onsets = [x[1] for x in self.notes]
        self.t0 = R.origin(onsets, spec["remove_silence"])
        self.ext, self.tie = R.extents(self.notes, td, self.t0)
        self.maxoff = max(f + c for f, c in self.ext)
        self.lead = spec["time_margin"] * td
        self.strictly_increasing = all(a < b for a, b in zip(onsets, onsets[1:]))
        self.nondecreasing = all(a <= b for a, b in zip(onsets, onsets[1:]))
        self.velocities = sorted(set(x[3] for x in self.notes)) if spec["has_vel"] else [1]
        end = spec["end"]
        if end is None:
            self.end_time = None
            self.ncols = 2 * self.lead + self.maxoff
            self.min_cols = self.ncols
        else:
            extra = Fraction(end["extra"][0], end["extra"][1])
            x = self.maxoff + extra
            if end["mode"] == "exact" and sel in INT_UNITS:
                x = td * (-((-x) // td))  # whole time units: end_time is an integer
            e = self.t0 + Fraction(x) / td
            self.end_time = int(e) if e.denominator == 1 else float(e)
            self.x = x
            # end_time is the end of the last frame; the margin comes before and after it (stated by the docs;
            # demanded also with a margin since repair 36edd8e)
            self.ncols = 2 * self.lead + -((-x.numerator) // x.denominator)
            self.min_cols = self.lead + self.maxoff
        pitches = [x[0] for x in self.notes]
        pm = spec["pitch_margin"]
        self.rows_judged = True
        if spec["piano_range"] and pm > -1:
            self.rows_judged = False
            self.nrows, self.base = None, None
        elif spec["piano_range"]:
            self.nrows, self.base = 88, 21
        elif pm > -1:
            self.nrows = max(pitches) - min(pitches) + 1 + 2 * pm
            self.base = min(pitches) - pm
        else:
            self.nrows, self.base = 128, 0

    def grid(self, spec, binary):
        return R.rasterise(self.notes, self.ext, self.lead, spec["onset_only"], spec["note_separation"], spec["has_vel"], binary)

    def collision(self, spans):
        seen = {}
        for (p, _a, _b, _v), (a, b) in zip(self.notes, spans):
            for (a2, b2) in seen.get(p, []):
                if a < b2 and a2 < b:
                    return True
            seen.setdefault(p, []).append((a, b))
        return False


def _dense(grid, base, nrows, ncols):
    out = np.zeros((nrows, ncols), dtype=np.int64)
    for (p, j), v in grid.items():
        r = p - base
        if 0 <= r < nrows and 0 <= j < ncols:
            out[r, j] = v
    return out


def _first_diff(got, exp):
    d = np.argwhere(got != exp)
    r, c = (int(x) for x in d[0])
    return {"row": r, "col": c, "got": int(got[r, c]) if float(got[r, c]).is_integer() else float(got[r, c]), "expected": int(exp[r, c]) if float(exp[r, c]).is_integer() else float(exp[r, c]), "n_cells": int(len(d))}


def _classes(o, spec, lay, spans):
    o.cls("unit:" + lay.sel)
    o.cls("time_unit:auto", spec["time_unit"] == "auto")
    o.cls("time_div:auto", spec["time_div"] == "auto")
    o.cls("off-grid(m>1)", spec["m"] > 1 and lay.sel not in INT_UNITS)
    for k in ("onset_only", "note_separation", "piano_range", "remove_silence", "binary", "return_idxs", "has_vel", "has_ch"):
        o.cls(k, spec[k])
    o.cls("remove_drums-with-drum-rows", spec["has_ch"] and spec["remove_drums"] and any(n["c"] == 9 for n in spec["notes"]))
    o.cls("drum-rows-kept", spec["has_ch"] and not spec["remove_drums"] and any(n["c"] == 9 for n in spec["notes"]))
    o.cls("pitch_margin>=0", spec["pitch_margin"] > -1)
    o.cls("time_margin>0", spec["time_margin"] > 0)
    o.cls("end_time", spec["end"] is not None)
    o.cls("end_time==last-offset", spec["end"] is not None and lay.x == lay.maxoff)
    o.cls("end_time-with-margin", spec["end"] is not None and spec["time_margin"] > 0)
    o.cls("zero-duration", any(x[2] == 0 for x in lay.notes))
    o.cls("negative-onset", any(x[1] < 0 for x in lay.notes))
    o.cls("unsorted-input", not lay.nondecreasing)
    coll = lay.collision(spans)
    o.cls("collision", coll)
    o.cls("multi-unit-array", len(spec["units"]) > 1)
    unsorted_vel = spec["has_vel"] and not lay.nondecreasing and len(lay.velocities) > 1
    o.cls("unsorted-with-distinct-velocities", unsorted_vel)
    return bool(unsorted_vel or coll)


def _options(spec, lay):
    return dict(
        time_unit=spec["time_unit"],
        time_div=spec["time_div"],
        onset_only=spec["onset_only"],
        note_separation=spec["note_separation"],
        time_margin=spec["time_margin"],
        return_idxs=spec["return_idxs"],
        remove_silence=spec["remove_silence"],
        end_time=lay.end_time,
        binary=spec["binary"],
    )


def _check_idx(o, spec, lay, spans, idx, order_name, pc=False):
    n = len(lay.notes)
    if not isinstance(idx, np.ndarray) or idx.shape != (n, 4) or not np.issubdtype(idx.dtype, np.integer):
        o.add("idx-wrong", order=order_name, what="shape/dtype", got=repr(getattr(idx, "shape", None)), expected=[n, 4])
        return
    for r, ((p, _on, _du, _v), (a, b), (f, c)) in enumerate(zip(lay.notes, spans, lay.ext)):
        row = [int(x) for x in idx[r]]
        bad = None
        if row[3] != p:
            bad = "pitch"
        elif row[1] != a:
            bad = "onset"
        elif spec["onset_only"]:
            if row[2] not in (a + 1, a + c):
                bad = "offset"
        elif row[2] != b:
            bad = "offset"
        if bad is None:
            if pc:
                if row[0] != p % 12:
                    bad = "row"
            elif lay.rows_judged and 0 <= p - lay.base < lay.nrows and row[0] != p - lay.base:
                bad = "row"
        if bad:
            o.add("idx-wrong", order=order_name, what=bad, note=r, got=row, expected=[p % 12 if pc else (p - lay.base if lay.rows_judged else None), a, b, p])
            return


def _unsorted_velocity_model(lay, spec, arr, order, binary):
    """Reference grid under the hypothesis of the known velocity-order defect: pitch, onset and
    duration are sorted by onset, the velocity column is left in input order.  Only used to decide
    whether an observed velocity discrepancy is exactly the known one (never as expectation)."""
    keptset = set(lay.kept)
    pos = [r for r, i in enumerate(order) if i in keptset]
    ons = arr["onset_" + lay.sel][pos].astype(float)
    idx = np.argsort(ons)
    vel = [x[3] for x in lay.notes]
    moved = list(vel)
    for r, j in enumerate(idx):
        moved[int(j)] = vel[r]
    notes = [(p, on, du, mv) for (p, on, du, _v), mv in zip(lay.notes, moved)]
    grid, _ = R.rasterise(notes, lay.ext, lay.lead, spec["onset_only"], spec["note_separation"], spec["has_vel"], binary)
    return grid


def _input(o, spec, order):
    """What is handed to the function for this case and row order: (effective spec, effective row order,
    plain array for the known-defect model, the argument itself)."""
    how = spec.get("container", "array")
    if how == "object":
        built = build_object(spec, order)
        if built is not None:
            obj, eff, kind = built
            o.cls("input:" + kind)
            o.cls("input:object")
            rows = object_order(obj)
            if sorted(rows) != sorted(order):
                # the object's note array is only consulted for the row order; it has to hold every note once
                o.add("object-input-notes-lost-or-duplicated", input=kind, got=rows, expected=sorted(order))
                rows = list(order)
            return eff, rows, build_array(eff, rows), obj
        o.cls("object-not-applicable(array given)")
    arr = build_array(spec, order)
    given = present(arr, spec)
    o.cls("input:" + (how if how != "object" else "array"))
    return spec, order, arr, given


def _run_raster(o, spec, order, order_name):
    """Call compute_pianoroll on the rows in `order`; compare with the reference. Returns dense roll or None."""
    spec, order, arr, given = _input(o, spec, order)
    lay = Layout(spec, order, spec["remove_drums"])
    kw = _options(spec, lay)
    kw.update(pitch_margin=spec["pitch_margin"], piano_range=spec["piano_range"], remove_drums=spec["remove_drums"])
    kw = _omit_defaults(o, spec, kw)
    before = given.copy() if isinstance(given, np.ndarray) else None
    try:
        with warnings.catch_warnings():
            warnings.simplefilter("ignore")
            res = call(M.compute_pianoroll, given, **kw)
        if before is not None and not (before.dtype == given.dtype and before.tobytes() == np.ascontiguousarray(given).tobytes()):
            o.add("input-array-modified", order=order_name)
    except SutRaised as e:
        if spec["end"] is not None and spec["time_margin"] > 0 and "end_time" in e.text:
            # a valid end_time (>= last offset) is rejected because of the margin
            o.add("end-time-with-margin-rejected", order=order_name, text=e.text[:160], end_time=lay.end_time, time_margin=spec["time_margin"])
            return None, lay
        raise
    idx = None
    if spec["return_idxs"]:
        if not isinstance(res, tuple) or len(res) != 2:
            o.add("result-type-wrong", got=type(res).__name__)
            return None, lay
        res, idx = res
    if not sp.issparse(res) or not np.issubdtype(res.dtype, np.integer):
        o.add("result-type-wrong", got=type(res).__name__, dtype=str(getattr(res, "dtype", None)))
        return None, lay
    got = np.asarray(res.toarray())
    grid, spans = lay.grid(spec, spec["binary"])
    if idx is not None:
        _check_idx(o, spec, lay, spans, idx, order_name)
    if not lay.rows_judged:
        return got, lay
    if got.shape[0] != lay.nrows:
        o.add("shape-rows-wrong", order=order_name, got=list(got.shape), expected_rows=lay.nrows)
        return got, lay
    if lay.ncols is not None:
        if got.shape[1] != lay.ncols:
            o.add("shape-columns-wrong", order=order_name, got=list(got.shape), expected_columns=lay.ncols)
            return got, lay
    elif got.shape[1] < lay.min_cols:
        o.add("shape-columns-wrong", order=order_name, got=list(got.shape), expected_at_least=lay.min_cols)
        return got, lay
    exp = _dense(grid, lay.base, lay.nrows, got.shape[1])
    if not np.array_equal(got != 0, exp != 0):
        o.add("cells-wrong", order=order_name, **_first_diff((got != 0).astype(int), (exp != 0).astype(int)))
    elif not np.array_equal(got, exp):
        model = _dense(_unsorted_velocity_model(lay, spec, arr, order, spec["binary"]), lay.base, lay.nrows, got.shape[1])
        o.add("velocity-wrong", order=order_name, is_input_order_velocity_pattern=bool(np.array_equal(got, model)), **_first_diff(got, exp))
    return got, lay


def oracle_raster(spec):
    o = Outcome()
    n = len(spec["notes"])
    given = list(range(n))
    lay0 = Layout(spec, given, spec["remove_drums"])
    _grid, spans = lay0.grid(spec, spec["binary"])
    o.nontrivial = _classes(o, spec, lay0, spans)
    if lay0.tie:
        o.excluded.append("rounding-tie")
        return o
    if not lay0.rows_judged:
        o.excluded.append("piano_range-with-pitch_margin")
    got0, _ = _run_raster(o, spec, given, "given")
    perm = list(spec["perm"])
    if perm != given:
        o.cls("permuted-run")
        got1, _ = _run_raster(o, spec, perm, "permuted")
        if not lay0.rows_judged and got0 is not None and got1 is not None:
            if got0.shape != got1.shape or not np.array_equal(got0 != 0, got1 != 0):
                o.add("row-order-changes-roll", shapes=[list(got0.shape), list(got1.shape)])
            elif not np.array_equal(got0, got1):
                o.add("row-order-changes-velocity", shapes=[list(got0.shape), list(got1.shape)])
    return o


# ------------------------------------------------------------------ pitch-class roll
def _pc_expected(grid, ncols, spec):
    exp = np.zeros((12, ncols))
    for (c, j), v in R.fold12(grid).items():
        if 0 <= j < ncols:
            exp[c, j] = v
    if spec["binary"]:
        exp = (exp > 0).astype(float)
    if spec["normalize"]:
        for j in range(ncols):
            tot = exp[:, j].sum()
            if tot != 0:
                exp[:, j] = exp[:, j] / tot
    return exp


def _run_pc(o, spec, order, order_name):
    spec, order, arr, given = _input(o, spec, order)
    lay = Layout(spec, order, True)
    kw = _options(spec, lay)
    kw["normalize"] = spec["normalize"]
    kw = _omit_defaults(o, spec, kw)
    try:
        with warnings.catch_warnings():
            warnings.simplefilter("ignore")
            res = call(M.compute_pitch_class_pianoroll, given, **kw)
    except SutRaised as e:
        if spec["end"] is not None and spec["time_margin"] > 0 and "end_time" in e.text:
            o.add("end-time-with-margin-rejected", order=order_name, text=e.text[:160], end_time=lay.end_time, time_margin=spec["time_margin"])
            return
        raise
    grid, spans = lay.grid(spec, False)
    idx = None
    if spec["return_idxs"]:
        if not isinstance(res, tuple) or len(res) != 2:
            o.add("result-type-wrong", got=type(res).__name__)
            return
        res, idx = res
        _check_idx(o, spec, lay, spans, idx, order_name, pc=True)
    if not isinstance(res, np.ndarray) or res.ndim != 2:
        o.add("result-type-wrong", got=type(res).__name__)
        return
    if res.shape[0] != 12:
        o.add("shape-rows-wrong", order=order_name, got=list(res.shape), expected_rows=12)
        return
    if lay.ncols is not None:
        if res.shape[1] != lay.ncols:
            o.add("shape-columns-wrong", order=order_name, got=list(res.shape), expected_columns=lay.ncols)
            return
    elif res.shape[1] < lay.min_cols:
        o.add("shape-columns-wrong", order=order_name, got=list(res.shape), expected_at_least=lay.min_cols)
        return
    ncols = res.shape[1]
    exp = _pc_expected(grid, ncols, spec)
    if not np.array_equal(res != 0, exp != 0):
        o.add("pc-cells-wrong", order=order_name, **_first_diff((res != 0).astype(int), (exp != 0).astype(int)))
    elif not np.allclose(res, exp, rtol=1e-12, atol=1e-12):
        d = np.argwhere(~np.isclose(res, exp, rtol=1e-12, atol=1e-12))[0]
        model = _pc_expected(_unsorted_velocity_model(lay, spec, arr, order, False), ncols, spec)
        o.add(
            "pc-values-wrong",
            order=order_name,
            is_input_order_velocity_pattern=bool(np.allclose(res, model, rtol=1e-12, atol=1e-12)),
            row=int(d[0]),
            col=int(d[1]),
            got=float(res[d[0], d[1]]),
            expected=float(exp[d[0], d[1]]),
        )


def oracle_pc(spec):
    o = Outcome()
    n = len(spec["notes"])
    given = list(range(n))
    lay0 = Layout(spec, given, True)
    _grid, spans = lay0.grid(spec, False)
    o.nontrivial = _classes(o, spec, lay0, spans)
    o.cls("normalize", spec["normalize"])
    octs = {}
    for (p, _a, _b, _v), (a, b) in zip(lay0.notes, spans):
        octs.setdefault(p % 12, []).append((p, a, b))
    fold = any(p1 != p2 and a1 < b2 and a2 < b1 for v in octs.values() for (p1, a1, b1) in v for (p2, a2, b2) in v)
    o.cls("octaves-folded-onto-one-cell", fold)
    o.nontrivial = bool(o.nontrivial or fold)
    if lay0.tie:
        o.excluded.append("rounding-tie")
        return o
    _run_pc(o, spec, given, "given")
    perm = list(spec["perm"])
    if perm != given:
        _run_pc(o, spec, perm, "permuted")
    return o


# ------------------------------------------------------------------ roll -> note array -> roll
@st.composite
def _decode_case(draw, tier):
    big = tier == "thorough"
    rows = draw(st.sampled_from([128, 88]))
    td = draw(st.sampled_from([1, 2, 3, 4, 5, 8, 8, 10, 12, 16, 100]))
    unit = draw(st.sampled_from(["sec", "beat", "quarter", "div"]))
    ncols = draw(st.integers(1, 60 if big else 24))
    lo = 21 if rows == 88 else 0
    pool = draw(st.lists(st.integers(lo, lo + rows - 1), min_size=1, max_size=3))
    pitch = st.one_of(st.sampled_from(pool), st.sampled_from(pool), st.integers(lo, lo + rows - 1), st.sampled_from([lo, lo + rows - 1]))
    kind = draw(st.sampled_from(["notes", "notes", "cells"]))
    spec = {"rows": rows, "td": td, "unit": unit, "ncols": ncols, "kind": kind, "container": draw(st.sampled_from(["dense", "dense", "csc", "csr", "sut", "sut"]))}
    vel = st.one_of(st.integers(1, 127), st.sampled_from([1, 64, 127]))
    if kind == "notes":
        # grid-aligned notes; per pitch kept only when not touching an earlier one
        raw = draw(
            st.lists(
                st.tuples(pitch, st.integers(0, ncols - 1), st.integers(1, 8), vel),
                min_size=1,
                max_size=20 if big else 8,
            )
        )
        notes = []
        for (p, on, du, v) in raw:
            du = min(du, ncols - on)
            if all(not (p == q and on <= o2 + d2 and o2 <= on + du) for (q, o2, d2, _v) in notes):
                notes.append([p, on, du, v])
        spec["notes"] = notes
        spec["sorted"] = _flag(draw, 0.5)
    else:
        spec["container"] = "dense" if spec["container"] == "sut" else spec["container"]
        cells = draw(
            st.lists(
                st.tuples(pitch, st.integers(0, ncols - 1), st.integers(1, 6), st.one_of(vel, st.sampled_from([5, 6]))),
                min_size=0,
                max_size=16 if big else 8,
            )
        )
        # later entries overwrite earlier ones: arbitrary integer roll with touching runs
        spec["cells"] = [[p, j, k, v] for (p, j, k, v) in cells]
    spec["roll_dtype"] = draw(st.sampled_from(["int64", "int32", "float64", "uint8", "bool"]))
    # time_div and time_unit left out of the call (documented defaults 8 and "sec")
    if _flag(draw, 0.2):
        spec["use_defaults"] = True
        spec["td"], spec["unit"] = 8, "sec"
    return spec


def strat_decode(tier):
    return _decode_case(tier)


def _decode_roll(spec):
    rows, ncols = spec["rows"], spec["ncols"]
    lo = 21 if rows == 88 else 0
    roll = [[0] * ncols for _ in range(rows)]
    if spec["kind"] == "notes":
        for (p, on, du, v) in spec["notes"]:
            for j in range(on, on + du):
                roll[p - lo][j] = v
    else:
        for (p, j0, k, v) in spec["cells"]:
            for j in range(j0, min(ncols, j0 + k)):
                roll[p - lo][j] = v
    return roll, lo


def _decode_model_roll(notes, onsets, rows, lo, ncols):
    """Roll under the hypothesis of the known velocity-order defect (see _unsorted_velocity_model)."""
    idx = np.argsort(np.asarray(onsets, dtype=float))
    vel = [x[3] for x in notes]
    moved = list(vel)
    for r, j in enumerate(idx):
        moved[int(j)] = vel[r]
    roll = np.zeros((rows, ncols), dtype=np.int64)
    for (p, on, du, _v), mv in zip(notes, moved):
        for j in range(on, min(ncols, on + du)):
            roll[p - lo, j] = max(roll[p - lo, j], mv)
    return roll


def _f4_close(a, b):
    return abs(float(a) - float(b)) <= 1e-5 * (1 + abs(float(b)))


def oracle_decode(spec):
    o = Outcome()
    rows, ncols, td, unit = spec["rows"], spec["ncols"], spec["td"], spec["unit"]
    roll, lo = _decode_roll(spec)
    if spec["roll_dtype"] == "bool" and spec["container"] != "sut":
        # a thresholded roll: every active cell counts as velocity 1
        roll = [[1 if x else 0 for x in row] for row in roll]
        o.cls("boolean-roll")
    o.cls("time_div-and-unit-omitted", bool(spec.get("use_defaults")))
    exp = R.decode(roll)  # (first col, row, length, value)
    o.cls("kind:" + spec["kind"])
    o.cls("rows:%d" % rows)
    o.cls("container:" + spec["container"])
    o.cls("empty-roll", not exp)
    touching = any(
        a[1] == b[1] and a[0] + a[2] == b[0] for a in exp for b in exp
    )
    o.cls("touching-runs-of-different-value", touching)
    o.nontrivial = len(exp) >= 2
    dense = np.array(roll, dtype="int64" if (spec["roll_dtype"] == "bool" and spec["container"] == "sut") else spec["roll_dtype"])
    if spec["container"] == "sut":
        # the roll produced by compute_pianoroll itself from the grid-aligned notes
        notes = list(spec["notes"])
        if spec["sorted"]:
            notes = sorted(notes, key=lambda x: (x[1], x[0]))
        arr = np.zeros(len(notes), dtype=[("pitch", "i4"), ("onset_" + unit, "f4"), ("duration_" + unit, "f4"), ("velocity", "i4")])
        for r, (p, on, du, v) in enumerate(notes):
            arr[r] = (p, float(Fraction(on, td)), float(Fraction(du, td)), v)
        onsets = [x[1] for x in notes]
        o.cls("sut-roll-from-unsorted-notes", any(a > b for a, b in zip(onsets, onsets[1:])))
        pr = call(M.compute_pianoroll, arr, time_unit=unit, time_div=td, remove_silence=False, piano_range=(rows == 88))
        got_pr = np.asarray(pr.toarray())
        want = dense[:, : got_pr.shape[1]]
        if got_pr.shape[0] != rows or got_pr.shape[1] > ncols or dense[:, got_pr.shape[1]:].any() or not np.array_equal(got_pr != 0, want != 0):
            o.add("cells-wrong", via="compute_pianoroll before decoding", got_shape=list(got_pr.shape))
            return o
        if not np.array_equal(got_pr, want):
            model = _decode_model_roll([(p, on, du, v) for (p, on, du, v) in notes], arr["onset_" + unit].astype(float), rows, lo, got_pr.shape[1])
            o.add(
                "velocity-wrong",
                via="compute_pianoroll before decoding",
                is_input_order_velocity_pattern=bool(np.array_equal(got_pr, model)),
                **_first_diff(got_pr, want.astype(np.int64))
            )
            return o
        container = pr
    elif spec["container"] == "csc":
        container = sp.csc_matrix(dense)
    elif spec["container"] == "csr":
        container = sp.csr_matrix(dense)
    else:
        container = dense
    if spec.get("use_defaults"):
        na = call(M.pianoroll_to_notearray, container)
    else:
        na = call(M.pianoroll_to_notearray, container, td, unit)
    if not isinstance(na, np.ndarray) or na.dtype.names is None:
        o.add("decode-result-type-wrong", got=type(na).__name__)
        return o
    need = ["pitch", "onset_" + unit, "duration_" + unit, "velocity"]
    if any(f not in na.dtype.names for f in need):
        o.add("decode-fields-wrong", got=list(na.dtype.names), expected=need)
        return o
    got = sorted((float(r["onset_" + unit]), int(r["pitch"]), float(r["duration_" + unit]), int(r["velocity"])) for r in na)
    want = sorted((float(Fraction(c, td)), r + lo, float(Fraction(ln, td)), v) for (c, r, ln, v) in exp)
    if len(got) != len(want):
        o.add("decode-note-count-wrong", got=len(got), expected=len(want))
        return o
    for g, w in zip(got, want):
        if g[1] != w[1] or g[3] != w[3] or not _f4_close(g[0], w[0]) or not _f4_close(g[2], w[2]):
            what = "pitch" if g[1] != w[1] else "velocity" if g[3] != w[3] else "onset" if not _f4_close(g[0], w[0]) else "duration"
            o.add("decode-%s-wrong" % what, got=list(g), expected=list(w))
            return o
    if "id" in na.dtype.names and len(set(na["id"].tolist())) != len(na):
        o.add("decode-ids-not-unique")
    if not exp:
        return o
    # re-rasterising the decoded notes reproduces the roll (up to trailing empty columns)
    last = max(c + ln for (c, r, ln, v) in exp)
    onsets = [float(x) for x in na["onset_" + unit]]
    o.cls("decoded-onsets-with-ties", len(set(onsets)) < len(onsets))
    pr = call(M.compute_pianoroll, na, time_unit=unit, time_div=td, remove_silence=False, piano_range=(rows == 88))
    back = np.asarray(pr.toarray())
    ref = dense[:, :last].astype(np.int64)
    if back.shape != ref.shape:
        o.add("reraster-shape-wrong", got=list(back.shape), expected=list(ref.shape))
    elif not np.array_equal(back != 0, ref != 0):
        o.add("reraster-cells-wrong", **_first_diff((back != 0).astype(int), (ref != 0).astype(int)))
    elif not np.array_equal(back, ref):
        dec = [(int(r["pitch"]), int(round(float(r["onset_" + unit]) * td)), int(round(float(r["duration_" + unit]) * td)), int(r["velocity"])) for r in na]
        model = _decode_model_roll(dec, na["onset_" + unit].astype(float), rows, lo, last)
        o.add("reraster-velocity-wrong", is_input_order_velocity_pattern=bool(np.array_equal(back, model)), **_first_diff(back, ref))
    if td in POW2:
        # with an explicit (exactly representable) end time the trailing columns come back as well
        end = float(Fraction(ncols, td))
        pr2 = call(M.compute_pianoroll, na, time_unit=unit, time_div=td, remove_silence=False, piano_range=(rows == 88), end_time=end)
        if pr2.shape != (rows, ncols):
            o.add("reraster-shape-wrong", with_end_time=end, got=list(pr2.shape), expected=[rows, ncols])
    return o


# ------------------------------------------------------------------ known findings
def known_velocity_order(spec, d):
    """Velocities stay in input order while pitch/onset/duration are sorted by onset.

    Input condition: a velocity column with at least two distinct values (and not binary);
    discrepancy: only cell values differ, and the observed roll is exactly the roll obtained
    by leaving the velocity column in input order (flag computed by the oracle)."""
    det = d["detail"]
    if d.kind in ("velocity-wrong", "pc-values-wrong", "reraster-velocity-wrong"):
        if not det.get("is_input_order_velocity_pattern"):
            return False
        if "perm" in spec:  # raster / pitch_class specs
            if not spec["has_vel"] or (spec["binary"] and d.kind == "velocity-wrong"):
                return False
            return len(set(n["v"] for n in spec["notes"])) > 1
        return True  # decode specs always carry velocities; the pattern flag is decisive
    if d.kind == "row-order-changes-velocity":
        # piano_range with pitch_margin: rows not judged, no reference roll to build the pattern from
        return spec["has_vel"] and not spec["binary"] and len(set(n["v"] for n in spec["notes"])) > 1
    return False


def known_end_time_margin(spec, d):
    return d.kind == "end-time-with-margin-rejected" and spec.get("end") is not None and spec.get("time_margin", 0) > 0


KNOWN = {
    "velocity-not-reordered": known_velocity_order,
    "end-time-with-margin-rejected": known_end_time_margin,
}

SUBCHECKS = [
    SubCheck(
        "raster",
        oracle_raster,
        strategy=strat_raster,
        budget={"quick": 500, "thorough": 10000},
        rule="note arrays (also as strided view / other field order) or the documented objects PerformedPart, Performance (one or two parts), Part, Score, list of parts built from the same notes; options at their default value left out of the call in half of the cases; input array unchanged afterwards; structured note arrays (score units beat/quarter/div, performance units sec/tick, 1-3 unit column pairs, f4/f8, with/without velocity, channel, id columns, rows in random order and in a second permutation) x all options; times on k/(time_div*m); compared cell by cell with the reference roll, shape, index rows; non-trivial = unsorted rows with >= 2 distinct velocities, or two notes of one pitch sharing a cell",
        known=KNOWN,
        max_buckets=4,
        floors={
            "onset_only": 0.15,
            "note_separation": 0.2,
            "piano_range": 0.1,
            "remove_silence": 0.2,
            "binary": 0.15,
            "return_idxs": 0.3,
            "has_vel": 0.4,
            "has_ch": 0.2,
            "pitch_margin>=0": 0.2,
            "time_margin>0": 0.2,
            "end_time": 0.2,
            "end_time==last-offset": 0.01,
            "collision": 0.1,
            "unsorted-with-distinct-velocities": 0.2,
            "off-grid(m>1)": 0.15,
            "zero-duration": 0.1,
            "remove_drums-with-drum-rows": 0.05,
            "drum-rows-kept": 0.03,
            "defaults-omitted": 0.3,
            "default-omitted:remove_silence": 0.1,
            "default-omitted:remove_drums": 0.1,
            "default-omitted:note_separation": 0.15,
            "default-omitted:time_unit": 0.08,
            "default-omitted:time_div": 0.03,
            "input:object": 0.15,
            "input:ppart": 0.02,
            "input:performance-of-two-parts": 0.02,
            "input:part": 0.02,
            "input:score": 0.015,
            "input:list-of-parts": 0.015,
            "input:strided-view": 0.06,
            "input:other-field-order": 0.06,
        },
    ),
    SubCheck(
        "pitch_class",
        oracle_pc,
        strategy=strat_pc,
        budget={"quick": 150, "thorough": 3000},
        rule="same arrays and time options; compute_pitch_class_pianoroll == octave fold (sum over octaves) of the reference 128-row roll, binarised / normalised per frame on request, index rows with pitch class; non-trivial = as raster, or two octaves of one pitch class in one frame",
        known=KNOWN,
        max_buckets=4,
        floors={"normalize": 0.2, "binary": 0.1, "octaves-folded-onto-one-cell": 0.02, "default-omitted:normalize": 0.1, "input:object": 0.1},
    ),
    SubCheck(
        "decode",
        oracle_decode,
        strategy=strat_decode,
        budget={"quick": 200, "thorough": 4000},
        rule="integer rolls 128 x n and 88 x n (dense int/float/uint8/bool, time_div and time_unit also omitted, csc, csr, or the matrix returned by compute_pianoroll) built from grid-aligned non-touching notes or from arbitrary overwritten runs (touching runs of different value); pianoroll_to_notearray == run-length decoding, and compute_pianoroll of the decoded array reproduces the roll; non-trivial = at least two decoded notes",
        known=KNOWN,
        max_buckets=4,
        floors={"kind:cells": 0.1, "rows:88": 0.2, "container:sut": 0.02, "time_div-and-unit-omitted": 0.1, "boolean-roll": 0.08},
    ),
]
