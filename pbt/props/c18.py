"""C18 - decoding an encoded performance reproduces the performance.

Three sub-checks on one generator (pbt/gen/c18_perf.py): a generated single-part score,
a performance aligned to it note for note (non-constant tempo, chord notes with small
onset deviations, arbitrary durations and velocities) and an alignment list that may
also contain deletions, insertions, ornaments and matches whose id is missing on one
side.

* ``roundtrip``      decode_performance(score, *encode_performance(...)) for the five
                     tempo normalisations x the two tempo-curve methods;
* ``matched_table``  to_matched_score rows / order / ids and get_matched_notes;
* ``time_maps``      get_time_maps_from_alignment in both directions.

Expected values come from the abstract spec only: score times from the exact beat map
of the shared ``TimeRef`` (Fractions), performed values from the integer milliseconds
of the spec.
"""

from fractions import Fraction

import numpy as np

from partitura.musicanalysis import performance_codec as PC
from pbt.core import Outcome, SubCheck, SutRaised, call
from pbt.gen import c18_perf as GP
from pbt.gen import scorespec as G

PROPERTY = "C18"
ENGINES = ["hypothesis"]
ASSUMPTIONS = [
    "the mean performed onsets of successive score onsets are strictly increasing (the property's 'positive inter-onset intervals'); deviations inside a chord are bounded so that this also holds for every subset of the chord",
    "decoded notes carry the score ids returned by encode_performance; they are compared with the performed note matched to that score id",
    "tolerances: onsets (after removing the median shift) (2e-5 + 1e-6*R)*(1+T) seconds, durations (1e-3*max(1,R/1000))*d + 1e-5 seconds, velocities exact; T = end of the performance in seconds, R = ratio of the largest to the smallest local beat period of the input (float32 parameters; the standardized normalisation cancels for large R)",
    "float32 columns of the matched-note table: 1e-5*(1+|x|); order of rows with equal (score onset, pitch) is not demanded",
    "time maps are judged at the matched score onsets / mean performed onsets (tolerance 1e-5*(1+|x|) plus the local slope times 5e-7*(1+|x|), float32 knots) and must be the linear interpolation halfway between neighbouring knots (1e-4*(1+|x|) + 1e-3 of the knot distance)",
    "every score id / performance id occurs in at most one match of the alignment",
    "a user-defined tempo curve (callable tempo_smooth, documented) is any positive beat period per unique score onset: the round trip must hold for it as for the built-in curves",
    "decode_performance(return_alignment=True) must pair every score id with the decoded note that carries this id, in whatever order the rows were given; re-encoding the decoded performance with that alignment must give the same notes (values not judged)",
    "to_matched_score(include_score_markings=True): the six basic columns and the ids as without the option, a voice column equal to the score voice and at least one feature column (feature values not judged)",
    "beyond the property statement, the 'average' tempo curve is compared with its documented meaning (performed interval of successive mean onsets per score interval) at all but the last score onset; the values of the 'derivative' curve are not judged, only that the round trip holds with it",
]

SHORT_MS = 75  # the codec's minimal performed duration is 60 / 200 * 0.25 s


def f32close(got, exp, scale=1.0):
    exp = float(exp)
    return abs(float(got) - exp) <= 1e-5 * scale * (1 + abs(exp))


# --------------------------------------------------------------------------
# reference model
# --------------------------------------------------------------------------


class Ref(object):
    """Everything the oracles expect, computed from the spec alone."""

    def __init__(self, spec):
        ps = spec["part"]
        self.tref = tref = G.TimeRef(ps)
        self.score = {}
        self.score_order = []
        for (t, d, pitch, sid) in GP.heads(ps):
            ob = tref.beat(t)
            self.score[sid] = dict(t=t, dur=d, pitch=pitch, onset_beat=ob, duration_beat=tref.beat(t + d) - ob, id=sid)
            self.score_order.append(sid)
        self.perf = {pn["id"]: pn for pn in spec["perf"]}
        self.align = spec["align"]
        self.matches = [a for a in self.align if a["label"] == "match"]
        self.ghost_perf = [a for a in self.matches if a["performance_id"] not in self.perf]
        self.ghost_score = [a for a in self.matches if a["score_id"] not in self.score]
        # pairs in alignment order
        self.pairs = [(a["score_id"], a["performance_id"]) for a in self.matches
                      if a["score_id"] in self.score and a["performance_id"] in self.perf]
        self.pid_of = dict(self.pairs)
        # groups of matched notes per score onset
        groups = {}
        for sid, pid in self.pairs:
            groups.setdefault(self.score[sid]["t"], []).append((sid, pid))
        self.groups = [(t, groups[t]) for t in sorted(groups)]
        self.T = max((pn["on"] + pn["dur"]) for pn in spec["perf"]) / 1000.0

    def sorted_pairs(self):
        return sorted(self.pairs, key=lambda p: (self.score[p[0]]["t"], self.score[p[0]]["pitch"]))

    def mean_on(self, members):
        return Fraction(sum(self.perf[pid]["on"] for _, pid in members), 1000 * len(members))

    def slopes(self, clamp):
        """Local beat periods (seconds per beat, exact) between successive matched onset groups and of the
        closing segment up to the last offset, as the codec defines its tempo curve."""
        out = []
        gs = self.groups
        for (t0, m0), (t1, m1) in zip(gs, gs[1:]):
            out.append((self.mean_on(m1) - self.mean_on(m0)) / (self.tref.beat(t1) - self.tref.beat(t0)))
        s_on = [self.score[s]["onset_beat"] for s, _ in self.pairs]
        s_off = [self.score[s]["onset_beat"] + self.score[s]["duration_beat"] for s, _ in self.pairs]
        s_last = max(s_off) if max(s_off) != max(s_on) else max(s_on) + 1
        p_on = [Fraction(self.perf[p]["on"], 1000) for _, p in self.pairs]
        p_off = [Fraction(self.perf[p]["on"] + (max(self.perf[p]["dur"], SHORT_MS) if clamp else self.perf[p]["dur"]), 1000) for _, p in self.pairs]
        p_last = max(p_off) if max(p_off) != max(p_on) else max(p_on) + 1
        out.append((p_last - self.mean_on(gs[-1][1])) / (s_last - self.tref.beat(gs[-1][0])))
        return out

    def fragile_last_time(self):
        """True iff the last matched score onset carries only zero-length notes, no matched note sounds beyond
        it and a matched note of positive length ends exactly there: the codec's test 'last onset == last
        offset' is then decided by float32 rounding of onset + duration."""
        t_last, members = self.groups[-1]
        if any(self.score[s]["dur"] > 0 for s, _ in members):
            return False
        ends = [self.score[s]["t"] + self.score[s]["dur"] for s, _ in self.pairs if self.score[s]["dur"] > 0]
        return bool(ends) and max(ends) == t_last

    def tempo_ratio(self):
        r = 1.0
        for clamp in (False, True):
            sl = [float(x) for x in self.slopes(clamp)]
            if min(sl) <= 0:
                return float("inf")
            r = max(r, max(sl) / min(sl))
        return r


def classes(o, spec, ref):
    ps = spec["part"]
    gsz = [len(m) for _, m in ref.groups]
    o.cls("chord-matched", any(x > 1 for x in gsz))
    dev = False
    for t, m in ref.groups:
        if len(set(ref.perf[p]["on"] for _, p in m)) > 1:
            dev = True
    o.cls("chord-with-onset-deviations", dev)
    inner = ref.slopes(False)[:-1]
    o.cls("tempo-not-constant", len(set(inner)) > 1)
    o.cls("tempo-constant", len(ref.groups) > 1 and len(set(inner)) == 1)
    o.cls("single-score-onset", len(ref.groups) == 1)
    o.cls("grace-note-matched", any(ref.score[s]["dur"] == 0 for s, _ in ref.pairs))
    o.cls("short-duration(<75ms)", any(ref.perf[p]["dur"] < SHORT_MS for _, p in ref.pairs))
    o.cls("pickup", ps["pickup"] is not None)
    o.cls("several-voices", len(set(n["voice"] for n in ps["notes"] if n["kind"] != "rest")) > 1)
    o.cls("time-signature-change", len(ps["timesigs"]) > 1)
    o.cls("tied-notes", any(n.get("tie_next") for n in ps["notes"]))
    labels = [a["label"] for a in ref.align]
    o.cls("deletion", "deletion" in labels)
    o.cls("insertion", "insertion" in labels)
    o.cls("ornament", "ornament" in labels)
    o.cls("match-with-missing-score-id", bool(ref.ghost_score))
    o.cls("match-with-missing-performance-id", bool(ref.ghost_perf))
    o.cls("all-notes-matched", len(ref.pairs) == len(ref.score) and len(ref.pairs) == len(ref.perf))
    keys = [(ref.score[s]["t"], ref.score[s]["pitch"]) for s, _ in ref.pairs]
    o.cls("equal-onset-and-pitch", len(set(keys)) < len(keys))
    o.cls("score-given-as-Score", spec.get("score_as") == "score")
    o.cls("score-given-as-PartGroup", spec.get("score_as") == "group")
    o.cls("alignment-ids-are-numpy-strings", spec.get("ids_as_numpy", False))
    o.cls("one-alignment-list-for-all-calls", spec.get("reuse_alignment", False))
    o.cls("performance-given-as-Performance", spec.get("perf_as") == "performance")
    o.cls("performance-ids-look-like-score-ids", any(pn["id"] in ref.score for pn in spec["perf"]))
    only_grace = any(all(ref.score[s]["dur"] == 0 for s, _ in m) for _, m in ref.groups)
    o.cls("onset-with-only-grace-notes-matched", only_grace)
    o.nontrivial = any(x > 1 for x in gsz) and len(set(inner)) > 1


class Feeder(object):
    """Hands the alignment to the code under test.  If a call raises although the alignment merely contains
    matches to unknown performance ids, that is reported once and the case goes on without those entries."""

    def __init__(self, o, spec, ref):
        self.o, self.spec, self.ref = o, spec, ref
        self.reduced = False
        self.shared = None  # audit: one alignment list handed to every call (the codec rewrites its score ids in place)

    def alignment(self):
        if self.spec.get("reuse_alignment", False) and self.shared is not None:
            return self.shared
        al = GP.alignment_copy(self.spec)
        if self.reduced:
            ghosts = set(a["performance_id"] for a in self.ref.ghost_perf)
            al = [a for a in al if not (a["label"] == "match" and a["performance_id"] in ghosts)]
        if self.spec.get("reuse_alignment", False):
            self.shared = al
        return al

    def __call__(self, fn):
        if not self.reduced:
            try:
                return call(fn, self.alignment())
            except SutRaised as e:
                if not self.ref.ghost_perf:
                    raise
                self.o.add(e.kind + ":match-with-unknown-performance-id", text=e.text, entry=self.ref.ghost_perf[0])
                self.o.excluded.append("continued-without-matches-to-unknown-performance-ids")
                self.reduced = True
                self.shared = None
        return call(fn, self.alignment())


# --------------------------------------------------------------------------
# sub-check 1: round trip
# --------------------------------------------------------------------------


def user_curve(kind):
    """A user-defined tempo curve (encode_performance documents a callable for tempo_smooth): one positive
    beat period per unique score onset, on the grouping of the built-in curves."""

    def curve(score_onsets, performed_onsets, score_durations, performed_durations, return_onset_idxs=False):
        bp, s_on, uidx = PC.tempo_by_average(score_onsets=score_onsets, performed_onsets=performed_onsets, score_durations=score_durations,
                                             performed_durations=performed_durations, return_onset_idxs=True)
        bp = np.asarray(bp, dtype=float)
        if kind == "constant":
            bp = np.full_like(bp, 0.5)
        elif kind == "scaled":
            bp = 1.5 * bp
        else:  # zigzag
            bp = np.array([0.4 if i % 2 else 0.7 for i in range(len(bp))], dtype=float)
        return (bp, s_on, uidx) if return_onset_idxs else (bp, s_on)

    return curve


def _suffix(configs):
    norms = sorted(set(c[0] for c in configs))
    meths = sorted(set(c[1] for c in configs))
    if len(configs) == len(GP.NORMS) * len(GP.METHODS):
        return ""
    if meths == ["callable"]:
        return ":only-user-defined-curve" + ("" if len(norms) == len(GP.NORMS) else ":" + "+".join(norms))
    if len(norms) == 1 and len(meths) == len(GP.METHODS):
        return ":only-" + norms[0]
    if len(meths) == 1 and len(norms) == len(GP.NORMS):
        return ":only-" + meths[0]
    if len(norms) == 1 and len(meths) == 1:
        return ":only-%s/%s" % (norms[0], meths[0])
    return ":some-configurations"


def oracle_roundtrip(spec):
    o = Outcome()
    ref = Ref(spec)
    classes(o, spec, ref)
    score, part, perf, ppart = GP.build_inputs(spec)
    R = ref.tempo_ratio()
    tol_on = (2e-5 + 1e-6 * R) * (1 + ref.T)
    rel_dur = 1e-3 * max(1.0, R / 1000.0)
    exp_sorted = ref.sorted_pairs()
    feed = Feeder(o, spec, ref)
    found = {}  # kind -> (configs, first detail)

    def note(kind, cfg, **detail):
        e = found.setdefault(kind, ([], detail))
        if cfg not in e[0]:
            e[0].append(cfg)

    fragile = ":last-onset-has-only-grace-notes" if ref.fragile_last_time() else ""

    def judge(dec, sids, cfg, tag=""):
        tag = tag + fragile
        dnotes = {}
        dup = False
        for n in dec.notes:
            if n["id"] in dnotes:
                dup = True
            dnotes[n["id"]] = n
        if dup or sorted(dnotes) != sorted(sids):
            note("decoded-notes-are-not-the-encoded-notes" + tag, cfg, got=sorted(n["id"] for n in dec.notes), expected=sorted(sids))
            return
        shifts = []
        bad_nan = False
        for sid in sids:
            n = dnotes[sid]
            pn = ref.perf[ref.pid_of[sid]]
            vals = (float(n["note_on"]), float(n["note_off"]))
            if not all(np.isfinite(v) for v in vals):
                bad_nan = True
                continue
            shifts.append((vals[0] - pn["on"] / 1000.0, sid))
            got_d = vals[1] - vals[0]
            exp_d = pn["dur"] / 1000.0
            if abs(got_d - exp_d) > rel_dur * exp_d + 1e-5:
                sn = ref.score[sid]
                twin = [s for s in sids if s != sid and (ref.score[s]["t"], ref.score[s]["pitch"]) == (sn["t"], sn["pitch"])]
                if twin and any(ref.score[s]["dur"] != sn["dur"] for s in twin):
                    kind = "duration-not-reproduced:equal-onset-and-pitch"
                elif sn["dur"] == 0:
                    kind = "duration-not-reproduced:grace-note"
                elif pn["dur"] < SHORT_MS and abs(got_d - SHORT_MS / 1000.0) <= 1e-3 * 0.075 * max(1.0, R / 1000.0) + 1e-5:
                    kind = "duration-not-reproduced:shorter-than-75ms"
                else:
                    kind = "duration-not-reproduced"
                note(kind + tag, cfg, score_id=sid, got=got_d, expected=exp_d, score_duration_beats=float(sn["duration_beat"]))
            if int(n["velocity"]) != pn["vel"]:
                note("velocity-not-reproduced" + tag, cfg, score_id=sid, got=int(n["velocity"]), expected=pn["vel"])
            if int(n["midi_pitch"]) != ref.score[sid]["pitch"]:
                note("decoded-pitch-is-not-the-score-pitch" + tag, cfg, score_id=sid, got=int(n["midi_pitch"]), expected=ref.score[sid]["pitch"])
        if bad_nan:
            note("decoded-time-not-finite" + tag, cfg, tempo_constant=len(set(ref.slopes(False))) == 1 or len(set(ref.slopes(True))) == 1, groups=len(ref.groups))
        if shifts:
            vals = sorted(x for x, _ in shifts)
            med = vals[len(vals) // 2]
            worst = max(shifts, key=lambda x: abs(x[0] - med))
            if abs(worst[0] - med) > tol_on:
                note("onset-not-reproduced-up-to-a-common-shift" + tag, cfg, score_id=worst[1], shift=worst[0], common_shift=med, tolerance=tol_on)

    seen = {}
    for sid, _ in ref.pairs:
        seen.setdefault((ref.score[sid]["t"], ref.score[sid]["pitch"]), []).append(sid)
    ambiguous = any(len(v) > 1 for v in seen.values())
    configs = [(n, m) for n in GP.NORMS for m in GP.METHODS]
    extra_cfg = configs[spec.get("extra_cfg", 0) % len(configs)]
    ckind = spec.get("callable_curve")
    o.cls("user-defined-tempo-curve", ckind is not None)
    o.cls("decode-rows-in-another-order", spec.get("decode_order", "given") != "given")
    o.cls("decode-returns-alignment", spec.get("return_alignment", False))
    if ckind is not None:
        configs = configs + [(n, "callable") for n in GP.NORMS]
    for cfg in configs:
        norm, meth = cfg
        smooth = user_curve(ckind) if meth == "callable" else meth
        try:
            res = feed(lambda al: PC.encode_performance(score, perf, al, beat_normalization=norm, tempo_smooth=smooth))
        except SutRaised as e:
            note(e.kind + ":encode", cfg, text=e.text)
            continue
        if not (isinstance(res, tuple) and len(res) == 2):
            note("encode-result-shape", cfg, got=repr(type(res)))
            continue
        params, sids = res
        sids = [str(x) for x in sids]
        want_cols = ["beat_period", "velocity", "timing", "articulation_log"] + GP.NORM_COLUMNS[norm]
        if sorted(params.dtype.names or ()) != sorted(want_cols):
            note("parameter-columns-wrong", cfg, got=list(params.dtype.names or ()), expected=want_cols)
            continue
        if len(params) != len(exp_sorted) or sorted(sids) != sorted(s for s, _ in exp_sorted):
            note("encoded-notes-are-not-the-matched-notes", cfg, got=sids, expected=[s for s, _ in exp_sorted])
            continue
        keys = [(ref.score[s]["t"], ref.score[s]["pitch"]) for s in sids]
        if keys != sorted(keys):
            note("encoded-notes-not-ordered-by-onset-and-pitch", cfg, got=sids)
        if meth == "average" and len(ref.groups) > 1:
            # documented meaning of the curve: performed inter-onset interval of successive (mean) onsets per
            # score interval; the closing value (up to the last offset) is not judged
            sl = ref.slopes(True)
            gi = {t: i for i, (t, _) in enumerate(ref.groups)}
            for k, sid in enumerate(sids):
                i = gi[ref.score[sid]["t"]]
                if i >= len(sl) - 1:
                    continue
                want = float(sl[i])
                ds = float(ref.tref.beat(ref.groups[i + 1][0]) - ref.tref.beat(ref.groups[i][0]))
                if not abs(float(params["beat_period"][k]) - want) <= 1e-5 * want + 4e-6 * (1 + ref.T) / ds + 1e-5 * want * (abs(float(ref.tref.beat(ref.groups[i + 1][0]))) + 1) / ds:
                    note("beat-period-is-not-the-local-tempo", cfg, score_id=sid, got=float(params["beat_period"][k]), expected=want)
                    break
        try:
            dec = call(PC.decode_performance, score, params, snote_ids=list(sids), beat_normalization=norm)
        except SutRaised as e:
            note(e.kind + ":decode", cfg, text=e.text)
            continue
        judge(dec, sids, cfg)
        if cfg == extra_cfg or meth == "callable":
            decode_variants(o, spec, ref, score, perf, params, sids, cfg, judge, note, ambiguous)
        if cfg == configs[0] and len(ref.pairs) == len(ref.score) and not ambiguous:
            # every score note is matched: the ids may be left out (rows are then taken in note-array order)
            try:
                dec = call(PC.decode_performance, score, params, beat_normalization=norm)
            except SutRaised as e:
                note(e.kind + ":decode:without-snote-ids", cfg, text=e.text)
                continue
            judge(dec, sids, cfg, ":without-snote-ids")
    # one configuration more: the documented third return value and decoding without ids
    try:
        res3 = feed(lambda al: PC.encode_performance(score, perf, al, return_u_onset_idx=True))
        if not (isinstance(res3, tuple) and len(res3) == 3):
            o.add("encode-result-shape", got=repr(type(res3)), with_return_u_onset_idx=True)
        else:
            params, sids, uidx = res3
            sids = [str(x) for x in sids]
            if sorted(sids) == sorted(s for s, _ in exp_sorted):
                got_groups = sorted(sorted(int(i) for i in g) for g in uidx)
                by_t = {}
                for i, s in enumerate(sids):
                    by_t.setdefault(ref.score[s]["t"], []).append(i)
                if got_groups != sorted(sorted(v) for v in by_t.values()):
                    o.add("unique-onset-groups-wrong", got=got_groups, expected=sorted(sorted(v) for v in by_t.values()))
    except SutRaised as e:
        o.add(e.kind + ":encode", text=e.text, with_return_u_onset_idx=True)
    for kind, (cfgs, detail) in sorted(found.items()):
        o.add(kind + _suffix(cfgs), configurations=["%s/%s" % c for c in cfgs][:10], **detail)
    return o


def decode_variants(o, spec, ref, score, perf, params, sids, cfg, judge, note, ambiguous):
    """Audit: decode_performance with its further documented arguments - rows and snote_ids in another order
    (the function documents that the rows are in the order of snote_ids), return_alignment, part_id / part_name -
    and the decoded performance handed back to the encoder."""
    norm = cfg[0]
    order = list(range(len(sids)))
    mode = spec.get("decode_order", "given")
    if mode == "reversed":
        order = order[::-1]
    elif mode == "permuted":
        keys = spec.get("perm_keys", [])
        order = sorted(order, key=lambda i: (keys[i % len(keys)] if keys else 0, i))
    want_al = bool(spec.get("return_alignment", False))
    named = bool(spec.get("name_decoded_part", False))
    if order == list(range(len(sids))) and not want_al and not named:
        return
    tag = ":rows-in-another-order" if order != list(range(len(sids))) else ""
    kw = dict(snote_ids=[sids[i] for i in order], beat_normalization=norm)
    if want_al:
        kw["return_alignment"] = True
    if named:
        kw.update(part_id="DEC", part_name="decoded")
    try:
        res = call(PC.decode_performance, score, params[order], **kw)
    except SutRaised as e:
        note(e.kind + ":decode" + tag, cfg, text=e.text)
        return
    dec, al = (res if want_al else (res, None))
    if want_al and not (isinstance(res, tuple) and len(res) == 2):
        note("decode-result-shape", cfg, got=repr(type(res)))
        return
    judge(dec, sids, cfg, tag)
    if named and (dec.id, dec.part_name) != ("DEC", "decoded"):
        note("decoded-part-id-or-name-not-set", cfg, got=[dec.id, dec.part_name])
    if al is not None:
        # every entry pairs a score note with the decoded note that carries its id
        pairs = sorted((str(a.get("label")), str(a.get("score_id")), str(a.get("performance_id"))) for a in al)
        want = sorted(("match", s, s) for s in sids)
        if pairs != want:
            wrong = [p for p in pairs if p not in want]
            note("returned-alignment-does-not-pair-each-score-note-with-its-decoded-note" + tag, cfg, wrong_entries=wrong[:4], n_wrong=len(wrong),
                 rows_in_another_order=bool(tag))
        elif not ambiguous:
            # the decoded performance and its alignment are an input of the encoder again
            try:
                res2 = call(PC.encode_performance, score, dec, [dict(a) for a in al], beat_normalization=norm)
                sids2 = [str(x) for x in res2[1]]
                if sorted(sids2) != sorted(sids) or not np.all(np.isfinite(np.asarray(res2[0]["beat_period"], dtype=float))):
                    note("re-encoding-the-decoded-performance-gives-other-notes", cfg, got=sids2, expected=sids)
            except SutRaised as e:
                note(e.kind + ":re-encode-decoded", cfg, text=e.text)


# --------------------------------------------------------------------------
# sub-check 2: matched-note table and matched indices
# --------------------------------------------------------------------------


def _check_table(o, ref, res, form):
    if not (isinstance(res, tuple) and len(res) == 2):
        o.add("matched-score-result-shape", got=repr(type(res)), form=form)
        return
    m, sids = res
    sids = [str(x) for x in sids]
    exp = ref.sorted_pairs()
    names = list(m.dtype.names or ())
    if names[:6] != ["onset", "duration", "pitch", "p_onset", "p_duration", "velocity"]:
        o.add("matched-score-columns-wrong", got=names, form=form)
        return
    if len(m) != len(sids):
        o.add("matched-score-rows-and-ids-differ-in-length", rows=len(m), ids=len(sids), form=form)
        return
    if sorted(sids) != sorted(s for s, _ in exp):
        o.add("matched-score-rows-are-not-the-matches-present-on-both-sides", got=sids, expected=[s for s, _ in exp], form=form)
        return
    keys = [(ref.score[s]["t"], ref.score[s]["pitch"]) for s in sids]
    if keys != sorted(keys):
        o.add("matched-score-not-ordered-by-onset-and-pitch", got=sids, expected=[s for s, _ in exp], form=form)
    for row, sid in zip(m, sids):
        sn = ref.score[sid]
        pn = ref.perf[ref.pid_of[sid]]
        want = dict(onset=sn["onset_beat"], duration=sn["duration_beat"], p_onset=pn["on"] / 1000.0, p_duration=pn["dur"] / 1000.0)
        for col, w in want.items():
            if not f32close(row[col], w):
                kind = "matched-score-%s-wrong" % col
                if col == "p_duration" and pn["dur"] < SHORT_MS and f32close(row[col], SHORT_MS / 1000.0):
                    kind += ":shorter-than-75ms"
                o.add(kind, score_id=sid, got=float(row[col]), expected=float(w), form=form)
                return
        if int(row["pitch"]) != sn["pitch"] or int(row["velocity"]) != pn["vel"]:
            o.add("matched-score-pitch-or-velocity-wrong", score_id=sid, got=[int(row["pitch"]), int(row["velocity"])], expected=[sn["pitch"], pn["vel"]], form=form)
            return


def oracle_table(spec):
    o = Outcome()
    ref = Ref(spec)
    classes(o, spec, ref)
    score, part, perf, ppart = GP.build_inputs(spec)
    feed = Feeder(o, spec, ref)
    res = feed(lambda al: PC.to_matched_score(score, perf, al))
    _check_table(o, ref, res, "objects")
    if spec.get("markings", False):
        # audit: the documented option include_score_markings adds the voice and the score-marking features
        # as further columns; the six basic columns and the ids stay what they are
        o.cls("table-with-score-markings")
        res = feed(lambda al: PC.to_matched_score(score, perf, al, include_score_markings=True))
        _check_table(o, ref, res, "objects+markings")
        if isinstance(res, tuple) and len(res) == 2 and len(res[0]) == len(res[1]):
            m, sids = res
            names = list(m.dtype.names or ())
            if "voice" not in names or not any("feature" in n for n in names):
                o.add("matched-score-marking-columns-missing", got=names)
            else:
                voice_of = dict((n["id"], n["voice"]) for n in spec["part"]["notes"])
                bad = [(str(sid), int(v), voice_of.get(str(sid))) for sid, v in zip(sids, m["voice"]) if int(v) != voice_of.get(str(sid))]
                if bad:
                    o.add("matched-score-voice-column-wrong", examples=bad[:4])
    sna = call(part.note_array)
    pna = call(ppart.note_array)
    res = feed(lambda al: PC.to_matched_score(sna.copy(), pna.copy(), al))
    _check_table(o, ref, res, "note-arrays")
    # ---- get_matched_notes --------------------------------------------------------
    sidx = {}
    for i, x in enumerate(sna["id"]):
        sidx.setdefault(str(x), []).append(i)
    pidx = {}
    for i, x in enumerate(pna["id"]):
        pidx.setdefault(str(x), []).append(i)
    if sorted(sidx) != sorted(ref.score) or any(len(v) != 1 for v in sidx.values()):
        o.add("score-note-array-ids-unexpected", got=sorted(sidx), expected=sorted(ref.score))
        return o
    if sorted(pidx) != sorted(ref.perf) or any(len(v) != 1 for v in pidx.values()):
        o.add("performance-note-array-ids-unexpected", got=sorted(pidx), expected=sorted(ref.perf))
        return o
    got = call(PC.get_matched_notes, sna, pna, GP.alignment_copy(spec))
    got = np.asarray(got)
    want = sorted((sidx[s][0], pidx[p][0]) for s, p in ref.pairs)
    if got.ndim != 2 or got.shape[1] != 2:
        o.add("matched-indices-shape", shape=list(got.shape), expected=[len(want), 2])
    else:
        g = sorted((int(a), int(b)) for a, b in got)
        if g != want:
            o.add("matched-indices-wrong", got=g, expected=want)
    return o


# --------------------------------------------------------------------------
# sub-check 3: time maps
# --------------------------------------------------------------------------


def oracle_maps(spec):
    o = Outcome()
    ref = Ref(spec)
    classes(o, spec, ref)
    score, part, perf, ppart = GP.build_inputs(spec)
    sna = call(part.note_array)
    pna = call(ppart.note_array)
    for remove in (True, False):
        knots = []
        dropped = 0
        for t, members in ref.groups:
            mem = [x for x in members if ref.score[x[0]]["dur"] > 0] if remove else members
            if not mem:
                dropped += 1
                continue
            u = float(ref.tref.beat(t))
            pm = sum(float(np.float32(ref.perf[p]["on"] / 1000.0)) for _, p in mem) / len(mem)
            knots.append((u, pm))
        if not knots:
            o.excluded.append("no-onset-left-after-removing-ornaments")
            continue
        for form in ("objects", "note-arrays"):
            a, b = (ppart, part) if form == "objects" else (pna.copy(), sna.copy())
            try:
                p2s, s2p = call(PC.get_time_maps_from_alignment, a, b, GP.alignment_copy(spec), remove)
            except SutRaised as e:
                o.add(e.kind + ":time-maps", text=e.text, remove_ornaments=remove, form=form)
                continue
            tag = ":onset-with-only-grace-notes" if dropped else ""
            done = False
            for i, (u, pm) in enumerate(knots):
                nb = [knots[j] for j in (i - 1, i + 1) if 0 <= j < len(knots)]
                sl_ps = max([abs((u - u2) / (pm - pm2)) for u2, pm2 in nb] or [0.0])  # beats per second
                sl_sp = max([abs((pm - pm2) / (u - u2)) for u2, pm2 in nb] or [0.0])  # seconds per beat
                g = float(np.asarray(call(s2p, u)))
                tol = 1e-5 * (1 + abs(pm)) + sl_sp * 5e-7 * (1 + abs(u))
                if not abs(g - pm) <= tol:
                    o.add("score-to-performance-map-misses-matched-onset" + tag, score_beat=u, got=g, expected=pm, remove_ornaments=remove, form=form, tolerance=tol)
                    done = True
                g = float(np.asarray(call(p2s, pm)))
                tol = 1e-5 * (1 + abs(u)) + sl_ps * 5e-7 * (1 + abs(pm))
                if not abs(g - u) <= tol:
                    o.add("performance-to-score-map-misses-matched-onset" + tag, seconds=pm, got=g, expected=u, remove_ornaments=remove, form=form, tolerance=tol)
                    done = True
                if done:
                    break
            if done:
                continue
            for (u0, p0), (u1, p1) in zip(knots, knots[1:]):
                g = float(np.asarray(call(s2p, (u0 + u1) / 2)))
                if not (p0 - 1e-4 <= g <= p1 + 1e-4) or abs(g - (p0 + p1) / 2) > 1e-4 * (1 + abs(p1)) + 1e-3 * (p1 - p0):
                    o.add("score-to-performance-map-not-linear-between-onsets" + tag, at=(u0 + u1) / 2, got=g, between=[p0, p1], remove_ornaments=remove, form=form)
                    break
                g = float(np.asarray(call(p2s, (p0 + p1) / 2)))
                if not (u0 - 1e-4 <= g <= u1 + 1e-4) or abs(g - (u0 + u1) / 2) > 1e-4 * (1 + abs(u1)) + 1e-3 * (u1 - u0):
                    o.add("performance-to-score-map-not-linear-between-onsets" + tag, at=(p0 + p1) / 2, got=g, between=[u0, u1], remove_ornaments=remove, form=form)
                    break
    return o


# --------------------------------------------------------------------------
# known findings (active only when listed in findings.d/C18.txt)
# --------------------------------------------------------------------------


def _has_ghost_perf(spec):
    ids = set(pn["id"] for pn in spec["perf"])
    return any(a["label"] == "match" and a["performance_id"] not in ids for a in spec["align"])


def k_unknown_perf_id(spec, disc):
    return disc.kind.startswith("sut-raised:KeyError@musicanalysis/performance_codec.py:to_matched_score") \
        and disc.kind.endswith(":match-with-unknown-performance-id") and _has_ghost_perf(spec)


def k_grace(spec, disc):
    return disc.kind.startswith("duration-not-reproduced:grace-note") and disc["detail"].get("got") == 0.0 \
        and disc["detail"].get("score_duration_beats") == 0.0


def k_short(spec, disc):
    if not (disc.kind.startswith("duration-not-reproduced:shorter-than-75ms") or disc.kind.startswith("matched-score-p_duration-wrong:shorter-than-75ms")):
        return False
    return disc["detail"].get("expected", 1.0) < 0.075 and abs(disc["detail"].get("got", 0.0) - 0.075) < 1e-3


def k_twins(spec, disc):
    if not disc.kind.startswith("duration-not-reproduced:equal-onset-and-pitch"):
        return False
    ref = Ref(spec)
    seen = {}
    for s, _ in ref.pairs:
        seen.setdefault((ref.score[s]["t"], ref.score[s]["pitch"]), set()).add(ref.score[s]["dur"])
    return any(len(v) > 1 for v in seen.values())


def k_std_zero(spec, disc):
    return disc.kind == "decoded-time-not-finite:only-beat_period_standardized" and disc["detail"].get("tempo_constant") is True


def k_maps_nan(spec, disc):
    if not (disc.kind.endswith(":onset-with-only-grace-notes") and "-map-" in disc.kind):
        return False
    got = disc["detail"].get("got")
    return disc["detail"].get("remove_ornaments") is True and got != got


def k_fragile(spec, disc):
    k = disc.kind
    if not (k.startswith("duration-not-reproduced") or k.startswith("onset-not-reproduced-up-to-a-common-shift")):
        return False
    return ":last-onset-has-only-grace-notes" in k and Ref(spec).fragile_last_time()


def k_alignment_rows(spec, disc):
    """decode_performance(return_alignment=True) pairs the score notes in the order they were given with the
    decoded notes in (onset, pitch) order: wrong whenever the rows / snote_ids are not already in that order."""
    return (disc.kind.startswith("returned-alignment-does-not-pair-each-score-note-with-its-decoded-note:rows-in-another-order")
            and spec.get("decode_order", "given") != "given" and bool(spec.get("return_alignment"))
            and disc["detail"].get("rows_in_another_order") is True)


KNOWN_ROUNDTRIP = {
    "decode-alignment-pairs-rows-given-in-another-order-wrongly": k_alignment_rows,
    "closing-interval-lost-to-rounding": k_fragile,
    "unknown-performance-id-raises": k_unknown_perf_id,
    "grace-note-duration-lost": k_grace,
    "durations-under-75ms-raised": k_short,
    "equal-onset-and-pitch-swapped": k_twins,
    "standardized-constant-tempo-nan": k_std_zero,
}
KNOWN_TABLE = {
    "unknown-performance-id-raises": k_unknown_perf_id,
    "durations-under-75ms-raised": k_short,
}
KNOWN_MAPS = {
    "time-maps-nan-without-ornaments": k_maps_nan,
}

RULE = ("single-part scores from the shared generator (chords, up to 3 voices, grace notes, ties, tuplets, pickups, signature changes) "
        "with a performance built onset group by onset group (free / piecewise / constant local tempo, chord deviations, durations 1..3000 ms, "
        "velocities 1..127) and an alignment with matches, deletions, insertions, ornaments and ids missing on either side in arbitrary order; "
        "non-trivial = at least one matched chord and a non-constant tempo")

SUBCHECKS = [
    SubCheck(
        "roundtrip",
        oracle_roundtrip,
        strategy=lambda tier: GP.case(tier),
        budget={"quick": 100, "thorough": 1500},
        rule=RULE + "; every case is encoded and decoded with all 5 normalisations x 2 tempo-curve methods (and x a user-defined callable curve in two cases of five); one configuration is also decoded with rows / ids in another order, return_alignment, part_id / part_name, and its result encoded again; score as Part / Score / PartGroup, alignment ids as str or numpy strings, one alignment list reused for all calls or fresh copies",
        known=KNOWN_ROUNDTRIP,
        floors={"chord-matched": 0.2, "tempo-not-constant": 0.2, "grace-note-matched": 0.03, "short-duration(<75ms)": 0.1,
                "match-with-missing-performance-id": 0.03, "match-with-missing-score-id": 0.03,
                # generator audit
                "user-defined-tempo-curve": 0.2, "decode-rows-in-another-order": 0.2, "decode-returns-alignment": 0.2,
                "score-given-as-PartGroup": 0.08, "alignment-ids-are-numpy-strings": 0.08, "one-alignment-list-for-all-calls": 0.1},
    ),
    SubCheck(
        "matched_table",
        oracle_table,
        strategy=lambda tier: GP.case(tier),
        budget={"quick": 100, "thorough": 1500},
        rule=RULE + "; to_matched_score with objects and with note arrays, get_matched_notes on the note arrays",
        known=KNOWN_TABLE,
        floors={"chord-matched": 0.2, "match-with-missing-performance-id": 0.03, "match-with-missing-score-id": 0.03, "deletion": 0.1, "insertion": 0.05,
                "table-with-score-markings": 0.1, "score-given-as-PartGroup": 0.08, "alignment-ids-are-numpy-strings": 0.08},
    ),
    SubCheck(
        "time_maps",
        oracle_maps,
        strategy=lambda tier: GP.case(tier),
        budget={"quick": 100, "thorough": 1500},
        rule=RULE + "; both maps, with and without ornaments, objects and note arrays, at every matched onset and at the midpoints",
        known=KNOWN_MAPS,
        floors={"chord-with-onset-deviations": 0.1, "tempo-not-constant": 0.2, "alignment-ids-are-numpy-strings": 0.08},
    ),
]
