"""C19 - independent MEI renderer: abstract score (c19_model.Model) -> MEI text + expected content.

This is the statement of what the notation means; it shares no code with
partitura's MEI exporter.  Only elements and attributes that
``partitura.io.importmei`` understands are written (see ASSUMPTIONS in props/c19.py):

scoreDef / staffGrp (flat or nested, ``symbol`` attribute or ``grpSym`` child) /
staffDef (one per part; meter, key and clef as child elements, as staffDef
attributes, or meter/key as attributes of the enclosing scoreDef), section /
measure / staff / layer, note, chord, rest, mRest, space, beam, tuplet, clef changes
inside a layer, scoreDef between measures for meter / key changes, ``<tie>`` elements,
grace notes, repeat bar lines, endings and nested sections, with or without
``ppq`` / ``dur.ppq``.
"""

from fractions import Fraction

from hypothesis import strategies as st

from pbt.gen.c19_model import sym_quarters

MEI_NS = "http://www.music-encoding.org/ns/mei"
MEI_DUR = {"long": "long", "breve": "breve", "whole": "1", "half": "2", "quarter": "4", "eighth": "8", "16th": "16", "32nd": "32", "64th": "64", "128th": "128"}
ACCID = {-2: "ff", -1: "f", 0: "n", 1: "s", 2: "ss"}
CLEFS = [("G", 2, 0), ("F", 4, 0), ("C", 3, 0), ("C", 4, 0), ("G", 2, -1), ("G", 2, 1), ("F", 4, -1), ("F", 3, 0), ("C", 1, 0)]

options = st.fixed_dictionaries(
    {
        "nparts": st.integers(1, 3),
        "assign": st.lists(st.integers(0, 2), min_size=4, max_size=4),
        "layer_n": st.sampled_from(["seq", "seq", "omitted", "shifted"]),
        "sig_style": st.sampled_from(["children", "attrs", "scoredef"]),
        "change_style": st.sampled_from(["children", "attrs"]),
        "ppq": st.sampled_from(["none", "none", "none", "staffdef", "staffdef", "staffdef+dur", "staffdef+dur", "dur-only", "dur-only", "staffdef-different"]),
        "ppq_mult": st.sampled_from([1, 1, 2, 3]),
        "accid": st.lists(st.integers(0, 3), min_size=6, max_size=6),
        "beam": st.lists(st.booleans(), min_size=6, max_size=6),
        "tuplet_beam": st.sampled_from(["none", "outside", "inside"]),
        "space": st.lists(st.integers(0, 4), min_size=6, max_size=6),
        "mrest": st.booleans(),
        "tie_place": st.sampled_from(["start", "end", "last"]),
        "tie_attr": st.booleans(),
        "grouping": st.sampled_from(["flat", "flat", "flat", "nested-all", "nested-all", "nested-tail", "nested-tail", "grpsym", "grpsym", "nested-head"]),
        "space_nodur": st.booleans(),
        "xstaff": st.lists(st.sampled_from([False, False, False, False, True]), min_size=5, max_size=5),
        "clef0": st.lists(st.one_of(st.none(), st.integers(0, len(CLEFS) - 1)), min_size=3, max_size=3),
        "clef_style": st.sampled_from(["child", "attrs"]),
        "clef_changes": st.lists(st.tuples(st.integers(0, 2), st.integers(1, 3), st.integers(0, len(CLEFS) - 1)), max_size=2),
        "repeat": st.one_of(st.none(), st.tuples(st.integers(0, 3), st.integers(0, 3))),
        "ending": st.booleans(),
        "subsection": st.booleans(),
        "grace_kind": st.sampled_from(["unacc", "acc", "unknown"]),
        "measure_n": st.sampled_from(["seq", "seq", "from0", "omitted"]),
        "ext": st.sampled_from([".mei", ".mei", ".MEI"]),
    }
)


LATER_OPTIONS = {"space_nodur": False, "xstaff": [False]}


class _Ids(object):
    def __init__(self):
        self.n = 0

    def __call__(self, prefix):
        self.n += 1
        return "%s%d" % (prefix, self.n)


def render(model, opt):
    """Return (mei text, expected).  expected = {"parts": [...], "repeats": [...], "endings": [...]}."""
    opt = dict(LATER_OPTIONS, **opt)  # replay files written before an option existed
    ids = _Ids()
    d = model.d
    nparts = opt["nparts"]
    nbars = len(model.bars)
    # ---- voices -> parts / layers -------------------------------------------------------
    part_voices = [[] for _ in range(nparts)]
    for i, v in enumerate(model.voices):
        part_voices[opt["assign"][i % 4] % nparts].append(v)
    # ---- ppq ----------------------------------------------------------------------------
    ppq_mode = opt["ppq"]
    mult = opt["ppq_mult"]
    ppq = d * mult  # every spec duration is integral in d

    def dur_attrs(ev_sym, dur_t, eid, with_ppq=True):
        a = ' xml:id="%s" dur="%s"' % (eid, MEI_DUR[ev_sym["type"]])
        if ev_sym.get("dots"):
            a += ' dots="%d"' % ev_sym["dots"]
        if with_ppq and ppq_mode in ("staffdef+dur", "dur-only"):
            a += ' dur.ppq="%d"' % (dur_t * mult)
            if first_ppq_dots[0] is None:
                first_ppq_dots[0] = int(ev_sym.get("dots") or 0)
        return a

    counters = {"accid": 0, "beam": 0, "space": 0, "xstaff": 0}
    double_dotted = []  # (ids, onset, end) of every rendered event with two dots (notes, chords, rests, spaces)
    space_nodur_used = [False]
    first_ppq_dots = [None]  # dots of the first element (document order) that carries dur.ppq

    def pitch_attrs(n):
        a = ' pname="%s" oct="%d"' % (n["step"].lower(), n["octave"])
        child = ""
        alter = n["alter"] or 0
        style = opt["accid"][counters["accid"] % len(opt["accid"])]
        counters["accid"] += 1
        if alter == 0:
            if style == 1:
                a += ' accid="n"'
            elif style == 2:
                child = '<accid xml:id="%s" accid="n"/>' % ids("a")
        else:
            code = ACCID[alter]
            if style == 0:
                a += ' accid="%s"' % code
            elif style == 1:
                a += ' accid.ges="%s"' % code
            elif style == 2:
                child = '<accid xml:id="%s" accid="%s"/>' % (ids("a"), code)
            else:
                child = '<accid xml:id="%s" accid.ges="%s"/>' % (ids("a"), code)
        return a, child

    tie_role = {}
    for a, b in model.ties:
        tie_role[a] = "m" if tie_role.get(a) == "t" else "i"
        tie_role[b] = "m" if tie_role.get(b) == "i" else "t"

    expected_parts = []
    note_bar = {}  # note id -> bar index (for placing <tie> elements)

    def note_xml(n, sym, dur_t, in_chord, grace=False, cross_staff=None):
        pa, child = pitch_attrs(n)
        a = ""
        if in_chord:
            a += ' xml:id="%s"' % n["id"]
        else:
            a += dur_attrs(sym, dur_t, n["id"], with_ppq=not grace)
        a += pa
        if grace:
            a += ' grace="%s"' % opt["grace_kind"]
        if cross_staff is not None:
            a += ' staff="%d"' % cross_staff
        if opt["tie_attr"] and n["id"] in tie_role:
            a += ' tie="%s"' % tie_role[n["id"]]
        if child:
            return "<note%s>%s</note>" % (a, child)
        return "<note%s/>" % a

    def event_xml(e, pi, voice, staff, exp):
        """XML of one event (with its grace notes in front) and expected entries."""
        out = []
        for g in e["graces"]:
            out.append(note_xml(g, g["sym"], 0, False, grace=True))
            exp["notes"].append(dict(id=g["id"], kind="grace", onset=model.q(e["t"]), dur=Fraction(0), step=g["step"], alter=g["alter"] or 0,
                                     octave=g["octave"], voice=voice, staff=staff))
        onset, dur = model.q(e["t"]), model.q(e["dur"])
        if e["sym"] is not None and (e["sym"].get("dots") or 0) >= 2:
            double_dotted.append(([e["id"]] + [n["id"] for n in e["notes"]], onset, onset + dur))
        if e["kind"] == "rest":
            as_space = False
            if not e.get("keep_rest"):
                k = opt["space"][counters["space"] % len(opt["space"])]
                counters["space"] += 1
                as_space = k == 0
            if as_space:
                out.append("<space%s/>" % dur_attrs(e["sym"], e["dur"], ids("sp")))
            else:
                out.append("<rest%s/>" % dur_attrs(e["sym"], e["dur"], e["id"]))
                exp["notes"].append(dict(id=e["id"], kind="rest", onset=onset, dur=dur, step=None, alter=None, octave=None, voice=voice, staff=staff))
        elif e["kind"] == "mrest":
            out.append('<mRest xml:id="%s"/>' % e["id"])
            exp["notes"].append(dict(id=e["id"], kind="rest", onset=onset, dur=dur, step=None, alter=None, octave=None, voice=voice, staff=staff))
        elif e["kind"] == "note":
            n = e["notes"][0]
            xs = None
            if nparts >= 2:
                counters["xstaff"] += 1
                if opt["xstaff"][counters["xstaff"] % len(opt["xstaff"])]:
                    xs = staff % nparts + 1  # written on the staff of the next part (cross-staff notation); the note stays in its layer
            out.append(note_xml(n, e["sym"], e["dur"], False, cross_staff=xs))
            exp["notes"].append(dict(id=n["id"], kind="note", onset=onset, dur=dur, step=n["step"], alter=n["alter"] or 0, octave=n["octave"],
                                     voice=voice, staff=xs if xs is not None else staff))
        else:
            # single notes of a chord may carry a staff of their own (cross-staff chords); it holds for that note only
            xss = []
            for n in e["notes"]:
                xs = None
                if nparts >= 2:
                    counters["xstaff"] += 1
                    if opt["xstaff"][counters["xstaff"] % len(opt["xstaff"])]:
                        xs = staff % nparts + 1
                xss.append(xs)
            inner = "".join(note_xml(n, e["sym"], e["dur"], True, cross_staff=xs) for n, xs in zip(e["notes"], xss))
            out.append("<chord%s>%s</chord>" % (dur_attrs(e["sym"], e["dur"], "c-" + e["id"]), inner))
            for n, xs in zip(e["notes"], xss):
                exp["notes"].append(dict(id=n["id"], kind="note", onset=onset, dur=dur, step=n["step"], alter=n["alter"] or 0, octave=n["octave"],
                                         voice=voice, staff=xs if xs is not None else staff))
        return "".join(out)

    def beamable(e):
        return e["kind"] in ("note", "chord") and e["sym"]["type"] in ("eighth", "16th", "32nd", "64th", "128th")

    def layer_xml(events, pi, voice, staff, exp, lead=""):
        """Sequence of events -> children of <layer>: tuplet groups wrapped, runs of short notes beamed."""
        items = []  # (xml, beamable)
        i = 0
        while i < len(events):
            e = events[i]
            if e["tup"] is not None:
                a = e["tup"][2]
                grp = events[i:i + a]
                inner = "".join(event_xml(x, pi, voice, staff, exp) for x in grp)
                tb = opt["tuplet_beam"] if all(beamable(x) for x in grp) else "none"
                if tb == "inside":
                    inner = '<beam xml:id="%s">%s</beam>' % (ids("b"), inner)
                x = '<tuplet xml:id="%s" num="%d" numbase="%d">%s</tuplet>' % (ids("t"), a, e["tup"][3], inner)
                if tb == "outside":
                    x = '<beam xml:id="%s">%s</beam>' % (ids("b"), x)
                items.append((x, False))
                i += a
            else:
                items.append((event_xml(e, pi, voice, staff, exp), beamable(e) and not e["graces"]))
                i += 1
        out = []
        i = 0
        while i < len(items):
            if items[i][1] and i + 1 < len(items) and items[i + 1][1]:
                use = opt["beam"][counters["beam"] % len(opt["beam"])]
                counters["beam"] += 1
                if use:
                    j = i
                    while j < len(items) and items[j][1]:
                        j += 1
                    out.append('<beam xml:id="%s">%s</beam>' % (ids("b"), "".join(x for x, _ in items[i:j])))
                    i = j
                    continue
            out.append(items[i][0])
            i += 1
        return lead + "".join(out)

    # ---- signatures -----------------------------------------------------------------------
    ts0 = model.timesigs[0]
    ks0 = model.keysigs[0] if model.keysigs and model.keysigs[0][0] == 0 else None
    ts_changes = {t: (b, bt) for t, b, bt in model.timesigs if t > 0}
    ks_changes = {t: (f, m) for t, f, m in model.keysigs if t > 0}

    def sig_code(f):
        return "0" if f == 0 else ("%ds" % f if f > 0 else "%df" % -f)

    clef_changes = {}
    for (pi, b, ci) in opt["clef_changes"]:
        pi = pi % nparts
        b = b % nbars
        if b == 0:
            continue
        clef_changes.setdefault((pi, b), ci)

    def clef_el(ci):
        sh, ln, oc = CLEFS[ci]
        a = ' shape="%s" line="%d"' % (sh, ln)
        if oc:
            a += ' dis="8" dis.place="%s"' % ("above" if oc > 0 else "below")
        return '<clef xml:id="%s"%s/>' % (ids("cl"), a)

    # ---- staffDefs --------------------------------------------------------------------------
    style = opt["sig_style"]
    staffdefs = []
    for pi in range(nparts):
        staff = pi + 1
        a = ' xml:id="P%d" n="%d" lines="5"' % (staff, staff)
        if ppq_mode in ("staffdef", "staffdef+dur"):
            a += ' ppq="%d"' % ppq
        elif ppq_mode == "staffdef-different":
            a += ' ppq="%d"' % (ppq * (pi + 1))
        children = '<label xml:id="%s">Part %d</label>' % (ids("l"), staff)
        exp = {"id": "P%d" % staff, "notes": [], "measures": [], "clefs": [], "staff": staff}
        ci = opt["clef0"][pi]
        if ci is not None and opt["clef_style"] == "attrs" and CLEFS[ci][2] != 0:
            ci = ci % 4  # the attribute form is only used without octave displacement
        if ci is not None:
            if opt["clef_style"] == "child":
                children += clef_el(ci)
            else:
                a += ' clef.shape="%s" clef.line="%d"' % (CLEFS[ci][0], CLEFS[ci][1])
            exp["clefs"].append((Fraction(0), staff) + CLEFS[ci])
            exp["clef0_declared"] = True
        else:
            exp["clef0_declared"] = False
        if style == "children":
            if ks0 is not None:
                children += '<keySig xml:id="%s" sig="%s"%s/>' % (ids("k"), sig_code(ks0[1]), ' mode="%s"' % ks0[2] if ks0[2] else "")
            children += '<meterSig xml:id="%s" count="%d" unit="%d"/>' % (ids("m"), ts0[1], ts0[2])
        elif style == "attrs":
            a += ' meter.count="%d" meter.unit="%d"' % (ts0[1], ts0[2])
            if ks0 is not None:
                a += ' key.sig="%s"' % sig_code(ks0[1])
                if ks0[2]:
                    a += ' key.mode="%s"' % ks0[2]
        staffdefs.append("<staffDef%s>%s</staffDef>" % (a, children))
        expected_parts.append(exp)
    sd_attrs = ' xml:id="%s"' % ids("sd")
    if style == "scoredef":
        sd_attrs += ' meter.count="%d" meter.unit="%d"' % (ts0[1], ts0[2])
        if ks0 is not None:
            sd_attrs += ' key.sig="%s"' % sig_code(ks0[1])
            if ks0[2]:
                sd_attrs += ' key.mode="%s"' % ks0[2]
    grouping = opt["grouping"]
    if grouping == "flat" or nparts == 1 and grouping == "nested-tail":
        grp = '<staffGrp xml:id="%s">%s</staffGrp>' % (ids("sg"), "".join(staffdefs))
    elif grouping == "nested-all":
        grp = '<staffGrp xml:id="%s"><staffGrp xml:id="%s" symbol="brace">%s</staffGrp></staffGrp>' % (ids("sg"), ids("sg"), "".join(staffdefs))
    elif grouping == "grpsym":
        grp = '<staffGrp xml:id="%s"><staffGrp xml:id="%s"><grpSym xml:id="%s" symbol="bracket"/>%s</staffGrp></staffGrp>' % (
            ids("sg"), ids("sg"), ids("gs"), "".join(staffdefs))
    elif grouping == "nested-head" and nparts >= 2:  # a nested group in front of a staffDef that stands directly in the main group
        grp = '<staffGrp xml:id="%s"><staffGrp xml:id="%s" symbol="brace">%s</staffGrp>%s</staffGrp>' % (
            ids("sg"), ids("sg"), "".join(staffdefs[:-1]), staffdefs[-1])
    elif grouping == "nested-head":
        grp = '<staffGrp xml:id="%s">%s</staffGrp>' % (ids("sg"), "".join(staffdefs))
    else:  # first staff directly in the main group, the others in a nested group (document order is kept)
        grp = '<staffGrp xml:id="%s">%s<staffGrp xml:id="%s" symbol="brace"><label xml:id="%s">Group</label>%s</staffGrp></staffGrp>' % (
            ids("sg"), staffdefs[0], ids("sg"), ids("l"), "".join(staffdefs[1:]))

    # ---- measures -----------------------------------------------------------------------------
    layer_no = {}
    for pi in range(nparts):
        for k, v in enumerate(part_voices[pi]):
            layer_no[v] = k + 1 + (1 if opt["layer_n"] == "shifted" else 0)
    rep = opt["repeat"]
    rep_start = rep_end = None
    if rep is not None:
        i, j = sorted((rep[0] % nbars, rep[1] % nbars))
        rep_start, rep_end = i, j
    if opt["ending"] and nbars >= 2:
        # first and second ending need a repeat that ends before the last bar
        if rep_end is None:
            rep_start, rep_end = 0, nbars - 2
        elif rep_end == nbars - 1:
            rep_end = nbars - 2
            rep_start = min(rep_start, rep_end)
    ending = opt["ending"] and rep_end is not None and rep_end + 1 < nbars
    measures_xml = []
    ties_by_bar = {}
    for b, (s, e, _) in enumerate(model.bars):
        pre = ""
        if s in ts_changes or s in ks_changes:
            a = ' xml:id="%s"' % ids("sd")
            ch = ""
            if s in ts_changes:
                if opt["change_style"] == "attrs":
                    a += ' meter.count="%d" meter.unit="%d"' % ts_changes[s]
                else:
                    ch += '<meterSig xml:id="%s" count="%d" unit="%d"/>' % ((ids("m"),) + ts_changes[s])
            if s in ks_changes:
                f, m = ks_changes[s]
                if opt["change_style"] == "attrs":
                    a += ' key.sig="%s"' % sig_code(f) + (' key.mode="%s"' % m if m else "")
                else:
                    ch += '<keySig xml:id="%s" sig="%s"%s/>' % (ids("k"), sig_code(f), ' mode="%s"' % m if m else "")
            pre = "<scoreDef%s>%s</scoreDef>" % (a, ch)
        if opt["measure_n"] == "seq":
            name = str(b + 1)
        elif opt["measure_n"] == "from0":
            name = str(b)
        else:
            name = None
        ma = ' xml:id="%s"' % ids("ms")
        if name is not None:
            ma += ' n="%s"' % name
        if rep_start == b:
            ma += ' left="rptstart"'
        if rep_end == b and not ending:
            ma += ' right="rptend"'
        elif rep_end == b and ending:
            ma += ' right="rptend"'
        elif b == nbars - 1:
            ma += ' right="end"'
        staves = []
        for pi in range(nparts):
            staff = pi + 1
            exp = expected_parts[pi]
            exp["measures"].append((model.q(s), model.q(e), name))
            present = [v for v in part_voices[pi] if model.vb[v][b] is not None]
            layers = []
            lead = ""
            if (pi, b) in clef_changes:
                ci = clef_changes[(pi, b)]
                lead = clef_el(ci)
                exp["clefs"].append((model.q(s), staff) + CLEFS[ci])
            if not present:
                # tacet bar: the first layer is filled with a bar rest (full bars) or rests in the rhythm of the complete voice
                if opt["mrest"] and model.bar_is_full(b):
                    evs = [{"t": s, "dur": e - s, "sym": None, "kind": "mrest", "id": ids("mr"), "notes": [], "graces": [], "tup": None}]
                else:
                    evs = model.filler(b)
                    for x in evs:
                        x["keep_rest"] = True
                voice = 1 + (1 if opt["layer_n"] == "shifted" else 0)
                la = ' xml:id="%s"' % ids("ly")
                if opt["layer_n"] != "omitted":
                    la += ' n="%d"' % voice
                else:
                    voice = 1
                layers.append("<layer%s>%s</layer>" % (la, layer_xml(evs, pi, voice, staff, exp, lead)))
            else:
                for k, v in enumerate(present):
                    evs = model.vb[v][b]
                    if opt["layer_n"] == "omitted":
                        voice = k + 1  # position of the layer inside the staff element
                        la = ' xml:id="%s"' % ids("ly")
                    else:
                        voice = layer_no[v]
                        la = ' xml:id="%s" n="%d"' % (ids("ly"), voice)
                    if k == 0:
                        # the first layer of a staff is never made of spaces only: its rests stay rests
                        if all(x["kind"] == "rest" for x in evs):
                            for x in evs:
                                x["keep_rest"] = True
                    tail = ""
                    if opt["space_nodur"] and k > 0 and not space_nodur_used[0]:
                        # the rests at the end of a further layer are replaced by one <space/> without @dur ("move to the end of the measure")
                        j = len(evs)
                        while j > 0 and evs[j - 1]["kind"] == "rest" and evs[j - 1]["tup"] is None and not evs[j - 1]["graces"]:
                            j -= 1
                        if 0 < j < len(evs):
                            evs = evs[:j]
                            tail = '<space xml:id="%s"/>' % ids("sp")
                            space_nodur_used[0] = True
                    layers.append("<layer%s>%s%s</layer>" % (la, layer_xml(evs, pi, voice, staff, exp, lead if k == 0 else ""), tail))
                    for x in evs:
                        for n in x["notes"]:
                            note_bar[n["id"]] = b
            staves.append('<staff xml:id="%s" n="%d">%s</staff>' % (ids("st"), staff, "".join(layers)))
        measures_xml.append([pre, ma, "".join(staves)])
    for (a, b2) in model.ties:
        place = {"start": note_bar[a], "end": note_bar[b2], "last": nbars - 1}[opt["tie_place"]]
        ties_by_bar.setdefault(place, []).append('<tie xml:id="%s" startid="#%s" endid="#%s"/>' % (ids("ti"), a, b2))
    chunks = []
    for b, (pre, ma, body) in enumerate(measures_xml):
        chunks.append(pre + "<measure%s>%s%s</measure>" % (ma, body, "".join(ties_by_bar.get(b, []))))
    # endings / nested section
    expected = {"parts": expected_parts, "repeats": [], "endings": []}
    if rep_start is not None:
        expected["repeats"].append((model.q(model.bars[rep_start][0]), model.q(model.bars[rep_end][1])))
    if ending:
        b1, b2 = rep_end, rep_end + 1
        chunks[b1] = '<ending xml:id="%s" n="1">%s</ending>' % (ids("en"), chunks[b1])
        chunks[b2] = '<ending xml:id="%s" n="2">%s</ending>' % (ids("en"), chunks[b2])
        expected["endings"].append((1, model.q(model.bars[b1][0]), model.q(model.bars[b1][1])))
        expected["endings"].append((2, model.q(model.bars[b2][0]), model.q(model.bars[b2][1])))
    if opt["subsection"] and nbars > 1:
        body = "".join(chunks[:1]) + '<section xml:id="%s">%s</section>' % (ids("se"), "".join(chunks[1:]))
    else:
        body = "".join(chunks)
    for pi, exp in enumerate(expected_parts):
        exp["timesigs"] = [(model.q(t), b, bt) for t, b, bt in model.timesigs]
        exp["keysigs"] = [(model.q(t), f, m) for t, f, m in model.keysigs]
        exp["key0_declared"] = ks0 is not None
        exp["ties"] = list(model.ties)
    text = (
        '<?xml version="1.0" encoding="UTF-8"?>\n'
        '<mei xmlns="%s" meiversion="4.0.1"><meiHead><fileDesc><titleStmt><title>c19</title></titleStmt><pubStmt/></fileDesc></meiHead>'
        '<music><body><mdiv xml:id="%s"><score xml:id="%s"><scoreDef%s>%s</scoreDef><section xml:id="%s">%s</section></score></mdiv></body></music></mei>\n'
        % (MEI_NS, ids("md"), ids("sc"), sd_attrs, grp, ids("se"), body)
    )
    expected["double_dotted"] = double_dotted
    expected["space_without_dur"] = space_nodur_used[0]
    expected["different_ppq"] = ppq_mode == "staffdef-different" and nparts >= 2
    expected["group_before_staffdef"] = grouping == "nested-head" and nparts >= 2
    expected["first_dur_ppq_dots"] = first_ppq_dots[0] or 0
    expected["ppq_declared"] = ppq if ppq_mode in ("staffdef", "staffdef+dur") else None
    for pi, exp in enumerate(expected_parts):
        exp["ppq_declared"] = ppq * (pi + 1) if ppq_mode == "staffdef-different" else expected["ppq_declared"]
    return text, expected
