"""Generators for property C06 (performance MIDI export / import).

Two families of JSON specs, both produced by construction (no filtering):

``perf_specs``  - a performance (notes / controls / programs / signatures / other
meta events, distributed over 1-3 performed parts and 1-4 tracks) plus the export
and import configuration.  Note times are built in the *tick domain* of the chosen
(ppq, mpq): every event is ``k + f`` ticks with an integer ``k`` and a fractional
part ``f`` from labelled classes (exact, small, within 0.1 of +-.5, exactly +-.5),
and the notes of one (track, channel, pitch) are chained with gaps >= 0 computed
from the *possible* rounded ticks, so they can touch but never overlap whatever
way a .5 tie is rounded.  A second mode draws free floats (sorted, paired).

``midi_specs``  - the literal content of a MIDI file: per track a list of messages
with delta times; note-ons are closed by note-offs or zero-velocity note-ons,
set_tempo events sit at distinct ticks in arbitrary tracks.
"""

from fractions import Fraction

from hypothesis import strategies as st

MILLION = 10 ** 6

PPQS = [480, 480, 480, 96, 120, 384, 960, 1, 24, 1000, 512, 256, 10000]
MPQS = [500000, 500000, 500000, 250000, 1000000, 600000, 333333, 468750, 1000, 4000000, 16777215]
TEXT_META = ["text", "copyright", "lyrics", "marker", "cue_marker"]
NAME_META = ["track_name", "instrument_name", "device_name"]

FRACS_SMALL = [Fraction(n, 1000) for n in (-400, -333, -250, -125, -1, 1, 2, 125, 250, 333, 399)]
FRACS_UP = [Fraction(1, 2), Fraction(1, 2), Fraction(499999, 1000000), Fraction(49, 100), Fraction(45, 100), Fraction(401, 1000)]
FRACS_DOWN = [-x for x in FRACS_UP]


def _time(x, ppq, mpq):
    """Seconds (float) of tick position x (Fraction) under (ppq, mpq)."""
    return float(Fraction(x) * mpq / (MILLION * ppq))


@st.composite
def _frac(draw, allow_down=True):
    """(f, lo_shift, hi_shift): fractional part and the range of possible rounded ticks k+lo..k+hi."""
    c = draw(st.sampled_from(["exact", "exact", "small", "small", "up", "down"]))
    if c == "down" and not allow_down:
        c = "up"
    if c == "exact":
        return (Fraction(0), 0, 0)
    if c == "small":
        return (draw(st.sampled_from(FRACS_SMALL)), 0, 0)
    if c == "up":
        return (draw(st.sampled_from(FRACS_UP)), 0, 1)
    return (draw(st.sampled_from(FRACS_DOWN)), -1, 0)


@st.composite
def _position(draw, maxtick):
    """Unconstrained event position (for controls, programs, meta) as a Fraction of ticks."""
    k = draw(st.integers(0, maxtick))
    f, lo, hi = draw(_frac(allow_down=k > 0))
    return Fraction(k) + f


@st.composite
def _chain(draw, nmax, maxgap, maxdur, start_max):
    """Non-overlapping (touching allowed) notes of one key in the tick domain: [(x_on, x_off)]."""
    n = draw(st.integers(1, nmax))
    cursor = draw(st.sampled_from([0, 0, 1, 7])) if start_max <= 0 else draw(st.integers(0, start_max))
    out = []
    for _ in range(n):
        gap = draw(st.sampled_from([0, 0, 0, 1, 2])) if draw(st.booleans()) else draw(st.integers(0, maxgap))
        f_on, lo_on, hi_on = draw(_frac())
        k_on = cursor + gap - lo_on  # lowest possible rounded tick is cursor + gap
        if k_on == 0 and f_on < 0:
            f_on, lo_on, hi_on = Fraction(0), 0, 0
        if out and Fraction(k_on) + f_on < out[-1][1]:
            k_on += 1  # no overlap in seconds either (sub-tick overlaps are overlaps)
        on_hi = k_on + hi_on
        f_off, lo_off, hi_off = draw(_frac())
        tie_like = (lo_on, hi_on, lo_off, hi_off) != (0, 0, 0, 0)
        dur = draw(st.sampled_from([0, 0, 1, 1, 2])) if draw(st.booleans()) else draw(st.integers(0, maxdur))
        if tie_like:
            dur = max(dur, 1)
        k_off = on_hi + dur - lo_off
        x_on, x_off = Fraction(k_on) + f_on, Fraction(k_off) + f_off
        if x_off < x_on:  # cannot happen by construction; keep the invariant explicit
            x_off = x_on
        out.append((x_on, x_off))
        cursor = k_off + hi_off
    return out


def _pitch():
    return st.one_of(st.sampled_from([60, 60, 61, 0, 127, 21, 108]), st.integers(0, 127))


def _channel():
    return st.one_of(st.sampled_from([0, 0, 1, 9, 15]), st.integers(0, 15))


@st.composite
def perf_specs(draw, tier="quick"):
    big = tier == "thorough"
    if draw(st.sampled_from([True, False, False, False, False, False])):
        ppq, mpq = 480, 500000  # the defaults of save_performance_midi
    else:
        ppq = draw(st.one_of(st.sampled_from(PPQS), st.integers(1, 10000)))
        mpq = draw(st.one_of(st.sampled_from(MPQS), st.integers(1000, 4000000)))
    kind = draw(st.sampled_from(["performance", "performance", "ppart", "ppart", "list"]))
    ntracks = draw(st.sampled_from([1, 1, 2, 2, 2, 3, 4]))
    merge_save = draw(st.sampled_from([False, False, True]))
    merge_load = draw(st.sampled_from([False, False, True]))
    merged = merge_save or merge_load
    order = draw(st.sampled_from(["sorted", "sorted", "shuffled"]))
    maxgap = draw(st.sampled_from([3, 50, 2000]))
    maxdur = draw(st.sampled_from([3, 100, 3000]))
    nmax = 6 if big else 4
    # free float times stay below 10^6 ticks (MIDI delta times are limited to 28 bits)
    tmax = min(50.0, float(Fraction(MILLION * mpq, MILLION * ppq)))

    if kind == "ppart":
        nparts = 1
        owner = [0] * ntracks
    elif kind == "performance":
        nparts = draw(st.integers(1, min(3, ntracks)))
        owner = list(range(nparts)) + [draw(st.integers(0, nparts - 1)) for _ in range(ntracks - nparts)]
    else:
        nparts = draw(st.integers(1, 3))
        owner = None  # drawn per key / control
    local_ids = draw(st.sampled_from(["rank", "global"]))
    # audit: Performance(..., ensure_unique_tracks=False) keeps the given numbers (then the numbers have to be
    # global, otherwise two generated tracks would share a file track and their equal keys could overlap)
    unique = True
    if kind == "performance" and draw(st.sampled_from([False] * 4 + [True])):
        unique = False
        local_ids = "global"
    # audit: track numbers with gaps / not starting at 0 (increasing, so the order of the tracks is kept)
    numbering = draw(st.sampled_from(["dense", "dense", "dense", "gaps"]))
    if numbering == "gaps":
        steps = [draw(st.sampled_from([0, 1, 1, 2, 5])) for _ in range(ntracks)]
        track_numbers, cur = [], -1
        for s_ in steps:
            cur += 1 + s_
            track_numbers.append(cur)
    else:
        track_numbers = list(range(ntracks))
    # audit: the way the performed parts are built and which optional keys the dictionaries carry
    build = draw(st.sampled_from(["dict"] * 6 + ["pnote", "note_array", "note_array"]))
    bare = draw(st.sampled_from(["no", "no", "no", "notes", "controls", "both"]))
    if build == "note_array":
        bare = "controls" if bare in ("controls", "both") else "no"
    # audit: load_performance(first_note_at_zero=True); then the first track often gets pedal events before
    # its first note, so that "the value in force at the new time 0" is exercised
    fnz = draw(st.sampled_from([False, False, True]))

    def local_track(g):
        if kind != "performance" or local_ids == "global":
            return track_numbers[g]
        return track_numbers[[h for h in range(ntracks) if owner[h] == owner[g]].index(g)]

    parts = [
        dict(notes=[], controls=[], programs=[], key_signatures=[], time_signatures=[], meta_other=[])
        for _ in range(nparts)
    ]
    used_keys = set()
    span = 0
    for g in range(ntracks):
        nkeys = draw(st.integers(1, 3))
        # audit: a track that holds controls / programs only (never the only track)
        noteless = ntracks >= 2 and draw(st.sampled_from([False] * 7 + [True]))
        if noteless:
            nkeys = 0
        made = 0
        for _ in range(nkeys):
            ch, pitch = draw(_channel()), draw(_pitch())
            if (bare in ("notes", "both") or build == "note_array") and draw(st.booleans()):
                ch = 1  # the documented default channel of a performed note: its key / array field can be left out below
            key = (ch, pitch) if merged else (g, ch, pitch)
            if key in used_keys:
                if made:
                    continue
                while key in used_keys:  # every track (but a noteless one) needs at least one note
                    pitch = (pitch + 1) % 128
                    key = (ch, pitch) if merged else (g, ch, pitch)
            used_keys.add(key)
            made += 1
            p = owner[g] if owner is not None else draw(st.integers(0, nparts - 1))
            if draw(st.sampled_from([True, True, True, False])):
                chain = draw(_chain(nmax, maxgap, maxdur, 20))
                times = [(_time(a, ppq, mpq), _time(b, ppq, mpq)) for a, b in chain]
                span = max(span, int(chain[-1][1]) + 1)
            else:
                fl = draw(
                    st.lists(
                        st.floats(0, tmax, allow_nan=False, allow_infinity=False), min_size=2, max_size=2 * nmax, unique=True
                    )
                )
                fl = sorted(fl)
                times = [(fl[i], fl[i + 1]) for i in range(0, len(fl) - 1, 2)]
            for (a, b) in times:
                parts[p]["notes"].append(
                    dict(midi_pitch=pitch, note_on=a, note_off=b, velocity=draw(st.integers(1, 127)), channel=ch, track=local_track(g))
                )
        if fnz and g == 0 and not noteless and draw(st.booleans()):
            p = owner[g] if owner is not None else 0
            for tick in sorted(set(draw(st.lists(st.integers(0, 12), min_size=1, max_size=3)))):
                parts[p]["controls"].append(
                    dict(time=_time(tick, ppq, mpq), number=64, value=draw(st.integers(0, 127)), channel=0, track=local_track(g))
                )
        for _ in range(draw(st.sampled_from([1, 2, 4] if noteless else [0, 0, 1, 2, 4]))):
            p = owner[g] if owner is not None else draw(st.integers(0, nparts - 1))
            if draw(st.sampled_from([True, True, False])):
                t = _time(draw(_position(max(span, 10))), ppq, mpq)
            else:
                t = draw(st.floats(0, tmax, allow_nan=False, allow_infinity=False))
            parts[p]["controls"].append(
                dict(
                    time=t,
                    number=draw(st.one_of(st.sampled_from([64, 64, 67, 66, 1, 7, 0, 127]), st.integers(0, 127))),
                    value=draw(st.one_of(st.sampled_from([0, 127, 64, 63]), st.integers(0, 127))),
                    channel=draw(_channel()),
                    track=local_track(g),
                )
            )
    # programs: a part either states its programs or gets the default program 0 per (channel, track)
    for p in range(nparts):
        if draw(st.sampled_from([False, False, True])):
            own = [g for g in range(ntracks) if owner is None or owner[g] == p]
            if not own:
                continue
            for _ in range(draw(st.integers(1, 2))):
                g = draw(st.sampled_from(own))
                parts[p]["programs"].append(
                    dict(
                        time=_time(draw(_position(max(span, 10))), ppq, mpq),
                        program=draw(st.one_of(st.sampled_from([0, 1, 127]), st.integers(0, 127))),
                        channel=draw(_channel()),
                        track=local_track(g),
                    )
                )
    # signatures and other meta events: track chosen later among the tracks that exist ("track_sel")
    for _ in range(draw(st.sampled_from([0, 0, 1, 2]))):
        p = draw(st.integers(0, nparts - 1))
        ks = dict(time=_time(draw(_position(max(span, 10))), ppq, mpq), fifths=draw(st.integers(-7, 7)), track_sel=draw(st.integers(0, 3)))
        mode = draw(st.sampled_from(["major", "minor", "minor", "absent"]))
        if mode != "absent":
            ks["mode"] = mode
        parts[p]["key_signatures"].append(ks)
    for _ in range(draw(st.sampled_from([0, 0, 1, 2]))):
        p = draw(st.integers(0, nparts - 1))
        parts[p]["time_signatures"].append(
            dict(
                time=_time(draw(_position(max(span, 10))), ppq, mpq),
                beats=draw(st.one_of(st.sampled_from([2, 3, 4, 6, 12]), st.integers(1, 255))),
                beat_type=draw(st.sampled_from([1, 2, 4, 4, 8, 16, 32, 64])),
                track_sel=draw(st.integers(0, 3)),
            )
        )
    for _ in range(draw(st.sampled_from([0, 0, 1, 2]))):
        p = draw(st.integers(0, nparts - 1))
        typ = draw(st.sampled_from(TEXT_META + NAME_META + ["midi_port", "channel_prefix", "sequence_number"]))
        m = dict(time=_time(draw(_position(max(span, 10))), ppq, mpq), type=typ, track_sel=draw(st.integers(0, 3)))
        if typ in TEXT_META:
            m["text"] = draw(st.text(alphabet="abc XYZ09-_é", max_size=6))
        elif typ in NAME_META:
            m["name"] = draw(st.text(alphabet="abc XYZ09-_é", max_size=6))
        elif typ == "midi_port":
            m["port"] = draw(st.integers(0, 255))
        elif typ == "channel_prefix":
            m["channel"] = draw(st.integers(0, 255))
        else:
            m["number"] = draw(st.integers(0, 65535))
        parts[p]["meta_other"].append(m)

    # a list may have drawn parts without any note: drop them (the empty part is its own class below)
    if kind == "list":
        parts = [q for q in parts if q["notes"] or q["controls"] or q["programs"]]
    # audit: optional keys left out (PerformedNote documents the defaults velocity 60, channel 1, track 0; the
    # match importer builds its pedal controls with number / time / value only)
    for q in parts:
        if bare in ("notes", "both"):
            for n in q["notes"]:
                if draw(st.booleans()):
                    del n["velocity"]
                if n["channel"] == 1 and draw(st.booleans()):
                    del n["channel"]
                if n["track"] == 0 and draw(st.booleans()):
                    del n["track"]
        if bare in ("controls", "both") and draw(st.sampled_from([True, True, False])):
            for c in q["controls"]:
                del c["channel"]
                del c["track"]
        if build == "note_array" and q["notes"]:
            omit = []
            if all(n.get("channel", 1) == 1 for n in q["notes"]) and draw(st.booleans()):
                omit.append("channel")
            if all(n.get("track", 0) == 0 for n in q["notes"]) and draw(st.booleans()):
                omit.append("track")
            q["na_omit"] = omit
    # order of the note lists
    for q in parts:
        if order == "sorted":
            q["notes"].sort(key=lambda n: (n["note_on"], n["note_off"]))
        else:
            q["notes"] = draw(st.permutations(q["notes"]))
    empty_at = None
    if kind != "ppart" and draw(st.sampled_from([False] * 24 + [True])):
        empty_at = draw(st.integers(0, len(parts)))
        parts.insert(empty_at, dict(notes=[], controls=[], programs=[], key_signatures=[], time_signatures=[], meta_other=[]))
    return dict(
        kind=kind,
        ppq=ppq,
        mpq=mpq,
        merge_save=merge_save,
        merge_load=merge_load,
        order=order,
        parts=parts,
        empty_part_at=empty_at,
        default_bpm=draw(st.sampled_from([120, 120, 60, 100])),
        io=draw(st.sampled_from(["path", "path", "fileobj", "object"])),
        api=draw(st.sampled_from(["generic", "generic", "generic", "midi"] if fnz else ["midi", "midi", "generic"])),
        # audit dimensions (all read with spec.get(..) so that older replay files keep their meaning)
        build=build,
        unique=unique,
        perf_arg=draw(st.sampled_from(["list", "list", "single"])) if kind == "performance" and len(parts) == 1 else "list",
        list_as=draw(st.sampled_from(["list", "list", "list", "tuple", "generator"])) if kind == "list" else "list",
        path_type=draw(st.sampled_from(["str", "str", "pathlib"])),
        first_note_at_zero=fnz,
        pedal_threshold=draw(st.sampled_from([64, 64, 0, 1, 100, 127, 128])),
        resave=draw(st.sampled_from([False, True])),
    )


# ---------------------------------------------------------------------------
# literal MIDI files
# ---------------------------------------------------------------------------


@st.composite
def midi_specs(draw, tier="quick"):
    big = tier == "thorough"
    ppq = draw(st.one_of(st.sampled_from(PPQS), st.integers(1, 10000)))
    ntracks = draw(st.sampled_from([1, 2, 2, 3, 3, 4]))
    merge_load = draw(st.sampled_from([False, False, True]))
    maxgap = draw(st.sampled_from([3, 50, 1000]))
    maxdur = draw(st.sampled_from([3, 100, 1000]))
    nmax = 6 if big else 4
    # events: (tick, group, seq, message dict)
    tracks = [[] for _ in range(ntracks)]
    used = set()
    group = 0
    span = 10
    nkeys_per_track = [draw(st.sampled_from([0, 1, 1, 2, 3])) for _ in range(ntracks)]
    if sum(nkeys_per_track) == 0:
        nkeys_per_track[-1] = 1  # a file without any note is not interesting
    for ti in range(ntracks):
        for _ in range(nkeys_per_track[ti]):
            ch, pitch = draw(_channel()), draw(_pitch())
            key = (ch, pitch) if merge_load else (ti, ch, pitch)
            if key in used:
                continue
            used.add(key)
            g = draw(st.integers(0, 5))  # position among the other messages of the same tick
            cursor = draw(st.integers(0, 20))
            seq = 0
            for _ in range(draw(st.integers(1, nmax))):
                gap = draw(st.sampled_from([0, 0, 1])) if draw(st.booleans()) else draw(st.integers(0, maxgap))
                dur = draw(st.sampled_from([0, 1, 1, 2])) if draw(st.booleans()) else draw(st.integers(0, maxdur))
                on = cursor + gap
                off = on + dur
                tracks[ti].append((on, g, seq, dict(m="note_on", ch=ch, note=pitch, vel=draw(st.integers(1, 127)))))
                seq += 1
                if draw(st.booleans()):
                    tracks[ti].append((off, g, seq, dict(m="note_on", ch=ch, note=pitch, vel=0)))
                else:
                    tracks[ti].append((off, g, seq, dict(m="note_off", ch=ch, note=pitch, vel=draw(st.sampled_from([0, 64, 127])))))
                seq += 1
                cursor = off
            span = max(span, cursor)
        for _ in range(draw(st.sampled_from([0, 0, 1, 2, 4]))):
            typ = draw(st.sampled_from(["control_change", "control_change", "control_change", "program_change", "pitchwheel", "aftertouch", "polytouch", "sysex"]))
            tick = draw(st.integers(0, span + 5))
            d = dict(m=typ)
            if typ != "sysex":
                d["ch"] = draw(_channel())
            if typ == "control_change":
                d["control"] = draw(st.one_of(st.sampled_from([64, 67, 1, 7]), st.integers(0, 127)))
                d["value"] = draw(st.integers(0, 127))
            elif typ == "program_change":
                d["program"] = draw(st.integers(0, 127))
            elif typ == "pitchwheel":
                d["pitch"] = draw(st.integers(-8192, 8191))
            elif typ == "aftertouch":
                d["value"] = draw(st.integers(0, 127))
            elif typ == "polytouch":
                d["note"] = draw(_pitch())
                d["value"] = draw(st.integers(0, 127))
            else:
                d["data"] = draw(st.lists(st.integers(0, 127), max_size=3))
            tracks[ti].append((tick, draw(st.integers(0, 5)), 0, d))
        for _ in range(draw(st.sampled_from([0, 0, 1, 2]))):
            typ = draw(st.sampled_from(["key_signature", "time_signature", "text", "marker", "track_name", "midi_port"]))
            tick = draw(st.integers(0, span + 5))
            d = dict(m=typ)
            if typ == "key_signature":
                d["fifths"] = draw(st.integers(-7, 7))
                d["minor"] = draw(st.booleans())
            elif typ == "time_signature":
                d["numerator"] = draw(st.integers(1, 32))
                d["denominator"] = draw(st.sampled_from([1, 2, 4, 8, 16]))
            elif typ == "midi_port":
                d["port"] = draw(st.integers(0, 127))
            elif typ == "track_name":
                d["name"] = draw(st.text(alphabet="abc XYZ09", max_size=5))
            else:
                d["text"] = draw(st.text(alphabet="abc XYZ09", max_size=5))
            tracks[ti].append((tick, draw(st.integers(0, 5)), 0, d))
    # tempo events at distinct ticks, each in an arbitrary track
    ntempo = draw(st.sampled_from([0, 1, 1, 2, 2, 3, 4]))
    tempo_ticks = draw(
        st.lists(st.one_of(st.just(0), st.integers(0, span + 5)), min_size=ntempo, max_size=ntempo, unique=True)
    )
    where = draw(st.sampled_from(["first", "any", "any", "last"]))
    for tick in tempo_ticks:
        ti = 0 if where == "first" else (ntracks - 1 if where == "last" else draw(st.integers(0, ntracks - 1)))
        mpq = draw(st.one_of(st.sampled_from([500000, 250000, 1000000, 600000]), st.integers(1000, 4000000)))
        g = draw(st.integers(0, 5))
        tracks[ti].append((tick, g, 0, dict(m="set_tempo", tempo=mpq)))
        # audit: a second set_tempo on the same tick of the same track (the later one is in force)
        if draw(st.sampled_from([False] * 5 + [True])):
            mpq2 = draw(st.one_of(st.sampled_from([500000, 250000, 1000000]), st.integers(1000, 4000000)))
            tracks[ti].append((tick, g, 1, dict(m="set_tempo", tempo=mpq2)))
    out = []
    for evs in tracks:
        evs = sorted(evs, key=lambda e: (e[0], e[1], e[2]))
        t = 0
        msgs = []
        for tick, g, seq, d in evs:
            d = dict(d)
            d["dt"] = tick - t
            t = tick
            msgs.append(d)
        out.append(msgs)
    return dict(
        ppq=ppq,
        type=1 if ntracks > 1 else draw(st.sampled_from([0, 1])),
        tracks=out,
        merge_load=merge_load,
        default_bpm=draw(st.sampled_from([120, 120, 60, 100, 50, 200, 96, 150])),
        api=draw(st.sampled_from(["midi", "midi", "generic"])),
        io=draw(st.sampled_from(["path", "path", "object"])),
        path_type=draw(st.sampled_from(["str", "str", "pathlib"])),
        first_note_at_zero=draw(st.sampled_from([False, False, True])),
        pedal_threshold=draw(st.sampled_from([64, 64, 0, 100, 127])),
    )
