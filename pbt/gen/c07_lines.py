"""C07 helpers: spec strategies for match lines of every format version, an independent
renderer of the expected text of a line (written from the format descriptions in the
docstrings / test-suite literals, not from partitura's tables), and the exact reference
arithmetic for symbolic durations and key names.

A *line spec* is a JSON dict ``{"v": [major, minor, patch], "kind": <kind>, ...fields}``.

Duration spec  : list of components ``[[num, den, tuple_div|None], ...]`` (one = plain, more = additive)
Key spec       : ``{"fifths": f, "minor": bool, "alt": None | {"fifths": f, "minor": bool}, "others": [key spec, ...]}``
Time-sig spec  : ``{"num": n, "den": d, "others": [[n, d], ...], "others_none": bool}``
"""

from fractions import Fraction
from math import gcd

from hypothesis import strategies as st

V010, V020, V030, V040, V050, V100 = (0, 1, 0), (0, 2, 0), (0, 3, 0), (0, 4, 0), (0, 5, 0), (1, 0, 0)
V0_VERSIONS = [V010, V020, V030, V040, V050]
ALL_VERSIONS = V0_VERSIONS + [V100]

V0_KINDS = [
    "snote_note", "deletion", "trailing_score", "no_played", "insertion", "hammer_bounce",
    "trailing_played", "trill", "sustain", "soft", "info", "snote", "note",
]
V1_KINDS = [
    "snote_note", "deletion", "insertion", "ornament", "sustain", "soft", "info", "scoreprop",
    "section", "stime_ptime", "snote", "note", "stime", "ptime",
]


SCORE_NOTE_KINDS = ["snote", "snote_note", "deletion", "trailing_score", "no_played"]
PERFORMED_NOTE_KINDS = ["note", "insertion", "hammer_bounce", "trailing_played", "trill", "ornament"]
# info has by far the most attributes: weight it
GLOBAL_KINDS = ["info", "info", "info", "meta", "scoreprop", "scoreprop", "section", "stime", "ptime", "stime_ptime", "sustain", "soft"]


def kinds_of(v):
    v = tuple(v)
    if v == V100:
        return list(V1_KINDS)
    return V0_KINDS + (["meta"] if v >= V030 else [])


# ----------------------------------------------------------------------------- pitch / keys (reference)
BASE = {"C": 0, "D": 2, "E": 4, "F": 5, "G": 7, "A": 9, "B": 11}
FIFTHS_LINE = "FCGDAEB"
MOD_TEXT = {None: "-", 0: "n", 1: "#", 2: "x", -1: "b", -2: "bb", 3: "###", -3: "bbb"}
# every accidental spelling the readers accept (partitura.utils.music.SIGN_TO_ALTER)
MOD_VARIANTS = {0: ["n"], 1: ["#", "s", "ns"], 2: ["x", "##", "ss"], -1: ["b", "f", "nf"], -2: ["bb", "ff"], None: ["-"],
                3: ["###"], -3: ["bbb"]}


def ref_midi_pitch(step, alter, octave):
    return 12 * (octave + 1) + BASE[step] + (alter or 0)


def ref_key_parts(fifths, minor):
    """(step, n_sharps(+)/flats(-)) of the tonic on the line of fifths."""
    idx = fifths + (4 if minor else 1)
    return FIFTHS_LINE[idx % 7], idx // 7


def _acc(n):
    return "#" * n if n >= 0 else "b" * (-n)


def key_text_v1(k):
    def one(f, minor):
        step, acc = ref_key_parts(f, minor)
        return step + _acc(acc) + ("m" if minor else "")

    s = one(k["fifths"], k["minor"])
    if k.get("alt"):
        s += "/" + one(k["alt"]["fifths"], k["alt"]["minor"])
    return s


def key_text_v03(k, mode_words=("Maj", "min")):
    def one(f, minor):
        step, acc = ref_key_parts(f, minor)
        return "%s%s %s" % (step, _acc(acc), mode_words[1] if minor else mode_words[0])

    s = one(k["fifths"], k["minor"])
    if k.get("alt"):
        s += "/" + one(k["alt"]["fifths"], k["alt"]["minor"])
    return s


def key_text_v01(k):
    step, acc = ref_key_parts(k["fifths"], k["minor"])
    return "[%s%s,%s]" % (step.lower(), _acc(acc) if acc else "n", "minor" if k["minor"] else "major")


def key_text(k, style):
    """style: 'v1', 'v03', 'v03list', 'v01'."""
    if style == "v1":
        return key_text_v1(k)
    if style == "v03":
        return key_text_v03(k)
    if style == "v03list":
        return "[" + ",".join([key_text_v03(k)] + [key_text_v03(o) for o in k.get("others", [])]) + "]"
    if style == "v01":
        return key_text_v01(k)
    raise ValueError(style)


def v1_key_name_is_plain(k):
    """True when no 1.0.0 key name of the spec contains a letter after the tonic step
    (flat sign 'b' or minor suffix 'm') - the names the 0.3.0 pattern cannot swallow."""
    txt = key_text_v1(k)
    return all(len(part) == 1 or set(part[1:]) <= {"#"} for part in txt.split("/"))


# ----------------------------------------------------------------------------- durations (reference)
def comp_text(c):
    n, d, t = c
    if d == 1 and t is None:
        return "%d" % n
    if t is None:
        return "%d/%d" % (n, d)
    return "%d/%d/%d" % (n, d, t)


def dur_fold(comps):
    """Unreduced (num, den) after left-folding the components the way the class adds
    (den = lcm, num scaled), and whether any intermediate exceeded the class's bound 1024."""
    n0, d0, t0 = comps[0]
    num, den = n0, d0 * (t0 or 1)
    single = len(comps) == 1
    bounded = n0 > 1024 or d0 > 1024
    if single:
        return num, den, bounded
    # parsing folds 0 + c0 + c1 ...; the first step keeps (n0, d0*t0)
    if num > 1024 or den > 1024:
        bounded = True
    for n, d, t in comps[1:]:
        dd = d * (t or 1)
        new_den = den * dd // gcd(den, dd)
        num = num * (new_den // den) + n * (new_den // dd)
        den = new_den
        if num > 1024 or den > 1024:
            bounded = True
    return num, den, bounded


def dur_value(comps):
    return sum((Fraction(n, d * (t or 1)) for n, d, t in comps), Fraction(0))


def dur_text(comps, rational=False):
    """Text of a duration. ``rational``: the pre-0.3.0 style that writes integers as n/1."""
    if len(comps) == 1:
        n, d, t = comps[0]
        if rational and d == 1 and t is None:
            return "%d/1" % n
        return comp_text(comps[0])
    if rational:
        num, den, bounded = dur_fold(comps)
        if den == 1 and not bounded:  # a bounded sum gets another denominator and keeps its components
            return "%d/1" % num
    return "+".join(comp_text(c) for c in comps)


# ----------------------------------------------------------------------------- floats
def on_grid(x, decimals):
    return float("%.*f" % (decimals, x)) == x


def ffix(x, decimals):
    return "%.*f" % (decimals, x)


def frepr(x):
    return repr(float(x))


# ----------------------------------------------------------------------------- expected text of a line
def snote_text(v, s):
    v = tuple(v)
    lower = v <= V030
    if v == V100:
        on, off = ffix(s["onset"], 4), ffix(s["end"], 4)
    elif v >= V030:
        on, off = frepr(s["onset"]), frepr(s["end"])
    else:
        on, off = ffix(s["onset"], 5), ffix(s["end"], 5)
    rational = v < V030
    return "snote(%s,[%s,%s],%s,%d:%d,%s,%s,%s,%s,[%s])" % (
        s["anchor"],
        s["step"].lower() if lower else s["step"].upper(),
        MOD_TEXT[s["alter"]],
        "-" if s["octave"] is None else "%d" % s["octave"],
        s["measure"],
        s["beat"],
        dur_text(s["offset"], rational),
        dur_text(s["duration"], rational),
        on,
        off,
        ",".join(s["attrs"]),
    )


def note_text(v, n):
    v = tuple(v)
    if v == V100:
        return "note(%s,%d,%d,%d,%d,%d,%d)." % (n["id"], n["pitch"], n["onset"], n["offset"], n["velocity"], n["channel"], n["track"])
    step = n["step"].lower() if v <= V030 else n["step"].upper()
    head = "note(%s,[%s,%s],%d," % (n["id"], step, MOD_TEXT[n["alter"]], n["octave"])
    if v < V030:
        return head + "%s,%s,%d)." % (ffix(n["onset"], 2), ffix(n["offset"], 2), n["velocity"])
    return head + "%d,%d,%d,%d)." % (n["onset"], n["offset"], n.get("adj_offset", n["offset"]), n["velocity"])


def timesig_text(ts, as_list):
    if as_list:
        return "[" + ",".join(["%d/%d" % (ts["num"], ts["den"])] + ["%d/%d" % tuple(o) for o in ts["others"]]) + "]"
    return "%d/%d" % (ts["num"], ts["den"])


V0_STR_ATTRS = ["piece", "scoreFileName", "scoreFilePath", "midiFileName", "midiFilename", "midiFilePath",
                "audioFileName", "audioFilePath", "performer", "composer"]
V0_FLOAT_ATTRS = ["audioFirstNote", "audioLastNote", "approximateTempo"]
V0_INT_ATTRS = ["midiClockUnits", "midiClockRate"]
V0_LIST_ATTRS = ["subtitle", "tempoIndication", "beatSubDivision", "beatSubdivision", "mergedFrom"]
V1_STR_ATTRS = ["piece", "scoreFileName", "scoreFilePath", "midiFileName", "midiFilePath", "audioFileName",
                "audioFilePath", "performer", "composer", "subtitle"]
V1_FLOAT_ATTRS = ["audioFirstNote", "audioLastNote", "approximateTempo"]
V1_INT_ATTRS = ["midiClockUnits", "midiClockRate"]


def info_value_type(v, attr):
    v = tuple(v)
    if attr == "matchFileVersion":
        return "version"
    if attr == "keySignature":
        return "key"
    if attr == "timeSignature":
        return "timesig"
    if v == V100:
        if attr in V1_STR_ATTRS:
            return "str"
        if attr in V1_FLOAT_ATTRS:
            return "float"
        if attr in V1_INT_ATTRS:
            return "int"
    else:
        if attr in V0_STR_ATTRS:
            return "qstr"
        if attr == "partSequence":
            return "str"
        if attr in V0_FLOAT_ATTRS:
            return "ufloat"
        if attr in V0_INT_ATTRS:
            return "int"
        if attr in V0_LIST_ATTRS:
            return "list"
    raise ValueError((v, attr))


def key_style(v, kind):
    v = tuple(v)
    if v == V100:
        return "v1"
    if kind == "meta":
        return "v03"
    return "v01" if v < V030 else "v03list"


def timesig_as_list(v, kind):
    return kind == "info" and tuple(v) in (V040, V050)


def value_text(v, kind, attr, value):
    if kind == "scoreprop":
        typ = {"keySignature": "key", "timeSignature": "timesig", "tempoIndication": "tempo",
               "beatSubDivision": "intlist", "directions": "list"}[attr]
    elif kind == "meta":
        typ = {"keySignature": "key", "timeSignature": "timesig"}[attr]
    else:
        typ = info_value_type(v, attr)
    if typ == "version":
        return "%d.%d.%d" % tuple(value)
    if typ == "key":
        return key_text(value, key_style(v, kind))
    if typ == "timesig":
        return timesig_text(value, timesig_as_list(v, kind))
    if typ == "str" or typ == "tempo":
        return value
    if typ == "qstr":
        return "'%s'" % value
    if typ == "float":
        return ffix(value, 4)
    if typ == "ufloat":
        return frepr(value)
    if typ == "int":
        return "%d" % value
    if typ == "list":
        return "[" + ",".join(value) + "]"
    if typ == "intlist":
        return "[" + ",".join("%d" % x for x in value) + "]"
    raise ValueError(typ)


def line_text(spec):
    """The text the format description prescribes for the line of the spec."""
    v, kind = tuple(spec["v"]), spec["kind"]
    if kind == "snote":
        return snote_text(v, spec["snote"])
    if kind == "note":
        return note_text(v, spec["note"])
    if kind == "snote_note":
        return snote_text(v, spec["snote"]) + "-" + note_text(v, spec["note"])
    if kind == "deletion":
        return snote_text(v, spec["snote"]) + "-deletion."
    if kind == "trailing_score":
        return snote_text(v, spec["snote"]) + "-trailing_score_note."
    if kind == "no_played":
        return snote_text(v, spec["snote"]) + "-no_played_note."
    if kind == "insertion":
        return "insertion-" + note_text(v, spec["note"])
    if kind == "hammer_bounce":
        return "hammer_bounce-" + note_text(v, spec["note"])
    if kind == "trailing_played":
        return "trailing_played_note-" + note_text(v, spec["note"])
    if kind == "trill":
        return "trill(%s)-" % spec["anchor"] + note_text(v, spec["note"])
    if kind == "ornament":
        return "ornament(%s,[%s])-" % (spec["anchor"], ",".join(spec["types"])) + note_text(v, spec["note"])
    if kind in ("sustain", "soft"):
        return "%s(%d,%d)." % (kind, spec["time"], spec["value"])
    if kind == "info":
        return "info(%s,%s)." % (spec["attr"], value_text(v, kind, spec["attr"], spec["value"]))
    if kind == "meta":
        return "meta(%s,%s,%d,%s)." % (spec["attr"], value_text(v, kind, spec["attr"], spec["value"]), spec["measure"], frepr(spec["time"]))
    if kind == "scoreprop":
        return "scoreprop(%s,%s,%d:%d,%s,%s)." % (
            spec["attr"], value_text(v, kind, spec["attr"], spec["value"]), spec["measure"], spec["beat"],
            dur_text(spec["offset"]), ffix(spec["time"], 4))
    if kind == "section":
        return "section(%s,%s,%s,%s,[%s])." % tuple([ffix(x, 4) for x in spec["times"]] + [",".join(spec["types"])])
    if kind == "stime":
        return "stime(%d:%d,%s,%s,[%s])" % (spec["measure"], spec["beat"], dur_text(spec["offset"]), ffix(spec["onset"], 4), ",".join(spec["types"]))
    if kind == "ptime":
        return "ptime([%s])." % ",".join("%d" % x for x in spec["onsets"])
    if kind == "stime_ptime":
        return line_text(dict(spec, kind="stime")) + "-" + line_text(dict(spec, kind="ptime"))
    raise ValueError(kind)


# ----------------------------------------------------------------------------- strategies
ID_HEAD = "abcdefghijklmnopqrstuvwxyzABCDEFGHIJKLMNOPQRSTUVWXYZ"
ID_TAIL = ID_HEAD + "0123456789_"


# The frequently used pieces are decoded from ONE Hypothesis integer each (mixed-radix digits):
# a draw costs ~0.1 ms, a score note would need ~40 of them otherwise. 0 decodes to the simplest value.
def _ident_from(k):
    k, form = divmod(k, 10)
    k, suf = divmod(k, 6)
    if form <= 3:
        k, num = divmod(k, 10000)
        s = "n%d" % num
    elif form <= 5:
        k, num = divmod(k, 100000)
        s = "%d" % num
    else:
        k, h = divmod(k, len(ID_HEAD))
        s = ID_HEAD[h]
        k, ln = divmod(k, 8)
        for _ in range(ln):
            k, c = divmod(k, len(ID_TAIL))
            s += ID_TAIL[c]
    if suf == 5:
        k, n = divmod(k, 20)
        s += "-%d" % (n + 1)
    elif suf == 4:  # audit: several dash groups (1-2-3, n7-1-2: repeats inside repeats, hand-numbered files)
        k, n = divmod(k, 20)
        k, m = divmod(k, 20)
        s += "-%d-%d" % (n + 1, m + 1)
    return s


def ident():
    """Identifiers without separators: n12, 17, P01_n3, n5-1 (suffix of unfolded repeats)."""
    return st.integers(0, 10 * 6 * 52 * 8 * 63 ** 7 * 20 * 20).map(_ident_from)


ATTR_TOKENS = ["s", "stacc", "arp", "grace", "fermata", "leftOutTied", "voice_overlap", "trill", "diff_score_version",
               "v1", "v2", "v13", "staff1", "staff2", "1", "2", "5", "mord", "fingering3", "acc", "ped on"]
TOKEN_CHARS = "abcdefghijklmnopqrstuvwxyzABCDEFGHIJKLMNOPQRSTUVWXYZ0123456789_ "


def _token_from(k):
    k, form = divmod(k, 3)
    if form < 2:
        return ATTR_TOKENS[k % len(ATTR_TOKENS)]
    k, ln = divmod(k, 8)
    s = ""
    for _ in range(ln + 1):
        k, c = divmod(k, len(TOKEN_CHARS))
        s += TOKEN_CHARS[c]
    return s.strip() or "x"


def attr_token():
    return st.integers(0, 3 * 8 * 64 ** 8).map(_token_from)


@st.composite
def attr_list(draw, min_size=0, max_size=5, long_too=False):
    # audit: "attribute lists of any length": one list in eight is longer than the usual 0..5
    if long_too and draw(st.integers(0, 7)) == 7:
        return draw(st.lists(attr_token(), min_size=max_size + 1, max_size=3 * max_size))
    return draw(st.lists(attr_token(), min_size=min_size, max_size=max_size))


DENS = [1, 2, 4, 8, 16, 32, 64, 128, 3, 6, 12, 24, 48, 5, 10, 20, 7, 9]
TUPS = [3, 5, 6, 7, 2, 9, 12]


def _comp_from(k, allow_zero=True, musical=True):
    k, dsel = divmod(k, 2)
    if musical or dsel:
        k, i = divmod(k, len(DENS))
        d = DENS[i]
    else:
        k, d = divmod(k, 1024)
        d += 1
    lo = 0 if allow_zero else 1
    k, nsel = divmod(k, 6)
    if nsel != 5:
        k, n = divmod(k, 13 - lo)
    else:
        k, n = divmod(k, 1025 - lo)
    n += lo
    k, tsel = divmod(k, 4)
    t = None
    if tsel == 3:
        k, i = divmod(k, len(TUPS))
        t = TUPS[i]
    return k, [n, d, t]


COMP_RANGE = 2 * 1024 * 6 * 1025 * 4 * 7


def component(allow_zero=True, musical=True):
    return st.integers(0, COMP_RANGE).map(lambda k: _comp_from(k, allow_zero, musical)[1])


def _dur_from(k, zero_ok=True):
    k, form = divmod(k, 10)
    if form == 0 and zero_ok:
        return [[0, 1, None]]
    if form <= 6:
        return [_comp_from(k, zero_ok, True)[1]]
    n = 2
    if form == 9:
        k, extra = divmod(k, 3)
        n += extra
    comps = []
    for _ in range(n):
        k, c = _comp_from(k, False, True)
        comps.append(c)
    return comps


def duration(zero_ok=True):
    return st.integers(0, 30 * COMP_RANGE ** 4).map(lambda k: _dur_from(k, zero_ok))


OFFGRID_FIXED = [-0.1, 0.1, -0.49]  # in units of the last written decimal
OFFGRID_ABS = [1.0 / 3, 2.0 / 3, -1.0 / 3, 1e-7, 0.1 + 0.2]
FREE_FIXED = [0.0, 1e-5, 1e-7, 123456789.125, 0.1 + 0.2]


def _uniform(k, lo, hi):
    return lo + (k % 2 ** 53) / float(2 ** 53) * (hi - lo)


def _signed(j, pos):
    """0..pos -> 0..pos, pos+1.. -> -1, -2, ..."""
    return j if j <= pos else pos - j


def _grid_from(k, decimals):
    scale = float(10 ** decimals)
    k, form = divmod(k, 3)
    if form == 0:
        return _signed(k % 4040001, 4000000) / scale
    if form == 1:
        return float(_signed(k % 809, 800))
    return _signed(k % 1617, 1600) / 4.0


def _offgrid_from(k, decimals):
    scale = float(10 ** decimals)
    k, form = divmod(k, 3)
    if form == 0:
        return (_signed(k % 404001, 400000) + 0.5) / scale
    if form == 1:
        j = k % (len(OFFGRID_FIXED) + len(OFFGRID_ABS))
        return OFFGRID_FIXED[j] / scale if j < len(OFFGRID_FIXED) else OFFGRID_ABS[j - len(OFFGRID_FIXED)]
    return _uniform(k, -100.0, 1000.0)


def _free_from(k):
    k, form = divmod(k, 4)
    if form == 0:
        return _signed(k % 6465, 6400) / 8.0
    if form == 1:
        return _signed(k % 30301, 30000) / 3.0
    if form == 2:
        return FREE_FIXED[k % len(FREE_FIXED)]
    return _uniform(k, -1e4, 1e6)


def _time_from(k, decimals):
    if decimals is None:
        return _free_from(k)
    k, off = divmod(k, 8)
    return _offgrid_from(k, decimals) if off == 7 else _grid_from(k, decimals)


FLOAT_RANGE = 2 ** 60


def grid_float(decimals):
    """Values written exactly with ``decimals`` decimals."""
    return st.integers(0, FLOAT_RANGE).map(lambda k: _grid_from(k, decimals))


def offgrid_float(decimals):
    """Values the format cannot write exactly, including rounding boundaries."""
    return st.integers(0, FLOAT_RANGE).map(lambda k: _offgrid_from(k, decimals))


def free_float():
    """Any finite value for the unconstrained (repr) formats."""
    return st.integers(0, FLOAT_RANGE).map(_free_from)


def time_float(decimals):
    """decimals None = unconstrained format; otherwise 7 of 8 values are exactly writable."""
    return st.integers(0, FLOAT_RANGE).map(lambda k: _time_from(k, decimals))


def snote_decimals(v):
    v = tuple(v)
    return 4 if v == V100 else (None if v >= V030 else 5)


# audit: the triple alterations the readers accept (###, bbb) are field values like any other
ALTERS = [0, 0, 0, 1, -1, 2, -2, 0, 1, -1, 3, -3]
PITCH_RANGE = 8 * 7 * len(ALTERS) * 2 * 11


def _pitch_from(k, rests=True):
    """(step, alter, octave); one of eight is a rest when allowed."""
    k, r = divmod(k, 8)
    if rests and r == 7:
        return "R", None, None
    k, s = divmod(k, 7)
    k, a = divmod(k, len(ALTERS))
    k, wide = divmod(k, 2)
    octave = (k % 11) - 1 if wide else k % 9
    return "CDEFGAB"[s], ALTERS[a], octave


@st.composite
def snote(draw, v):
    dec = snote_decimals(v)
    step, alter, octave = _pitch_from(draw(st.integers(0, PITCH_RANGE)), rests=True)
    k = draw(st.integers(0, 2 * 301 * 12 * 4 * 6))
    k, small = divmod(k, 2)
    k, measure = divmod(k, 301)
    if small:
        measure %= 4
    k, beat = divmod(k, 12)
    k, indep = divmod(k, 4)
    onset = draw(time_float(dec))
    if indep == 3:
        end = draw(time_float(dec))
    else:
        end = onset + [0.0, 0.25, 0.5, 1.0, 2.0, 4.0][k % 6]
        if dec is not None and on_grid(onset, dec):
            end = float(ffix(end, dec))  # stay on the format's grid
    return {
        "anchor": draw(ident()),
        "step": step,
        "alter": alter,
        "octave": octave,
        "measure": measure,
        "beat": beat + 1,
        "offset": draw(duration()),
        "duration": draw(duration()),
        "onset": onset,
        "end": end,
        "attrs": draw(attr_list(long_too=True)),
    }


@st.composite
def pnote(draw, v):
    v = tuple(v)
    k = draw(st.integers(0, 2 * 2000001 * 2 * 400001))
    k, small = divmod(k, 2)
    k, on = divmod(k, 2000001)
    if small:
        on %= 3001
    k, short = divmod(k, 2)
    dur = k % 400001
    if short:
        dur %= 5001
    k = draw(st.integers(0, 128 * 128 * 17 * 21 * 5 * 6))
    k, vel = divmod(k, 128)
    if v == V100:
        k, pitch = divmod(k, 128)
        k, ch = divmod(k, 17)
        k, tr = divmod(k, 21)
        return {"id": draw(ident()), "pitch": pitch, "onset": on, "offset": on + dur, "velocity": vel, "channel": ch, "track": tr}
    step, alter, octave = _pitch_from(draw(st.integers(0, PITCH_RANGE)), rests=False)
    n = {"id": draw(ident()), "step": step, "alter": alter, "octave": max(octave, 0) if octave < 9 else 8, "velocity": vel}
    if v < V030:
        k, _ = divmod(k, 128 * 17 * 21)
        k, adj = divmod(k, 5)
        if k % 6 == 5:
            n["onset"] = draw(offgrid_float(2))
            n["offset"] = n["onset"] + draw(st.integers(0, 2 ** 53).map(lambda j: _uniform(j, 0.0, 100.0)))
        else:
            n["onset"] = draw(st.integers(0, 20000000)) / 100.0
            n["offset"] = draw(st.integers(0, 20000000)) / 100.0
    else:
        k, _ = divmod(k, 128 * 17 * 21)
        n["onset"] = on
        n["offset"] = on + dur
        # audit: adj_offset is an optional keyword of the constructor (absent: equal to the offset)
        adj = [0, 0, 1, 37, 4000][k % 5]
        if draw(st.integers(0, 5)) == 5:
            adj = None
        if adj is not None:
            n["adj_offset"] = on + dur + adj
    return n


@st.composite
def key_spec(draw, alt_ok=True, others_ok=False):
    k = {"fifths": draw(st.integers(-7, 7)), "minor": draw(st.booleans()), "alt": None, "others": []}
    if alt_ok and draw(st.integers(0, 2)) == 0:
        k["alt"] = {"fifths": draw(st.integers(-7, 7)), "minor": draw(st.booleans())}
    if others_ok and draw(st.integers(0, 3)) == 0:
        k["others"] = [draw(key_spec(alt_ok=True, others_ok=False)) for _ in range(draw(st.integers(1, 2)))]
    return k


@st.composite
def timesig_spec(draw, others_ok):
    ts = {"num": draw(st.one_of(st.integers(1, 12), st.integers(1, 64))), "den": draw(st.sampled_from([1, 2, 4, 8, 16, 32, 64])),
          "others": [], "others_none": False}
    if others_ok and draw(st.integers(0, 2)) == 0:
        ts["others"] = [[draw(st.integers(1, 12)), draw(st.sampled_from([2, 4, 8, 16]))] for _ in range(draw(st.integers(1, 4)))]
    if not others_ok:
        ts["others_none"] = draw(st.booleans())
    return ts


TEXT_ALPHABET = "abcdefghijklmnopqrstuvwxyzABCDEFGHIJKLMNOPQRSTUVWXYZ0123456789" + " ._-#/&+:;!?" * 2 + "éèüöñß" + ",'"
FIXED_TEXTS = ["Etude Op. 10 No. 3", "/path/to/dataset/Chopin_op10_no3.musicxml", "Chopin_op10_no3_p01.mid", "Frèdéryk Chopin",
               "A. Human Pianist", "op10_3_1#18.mid", "-", "Sonata No. 14, Op. 27", "K. 265", "Schumann's Kinderszenen"]


def free_text():
    return st.one_of(
        st.sampled_from(FIXED_TEXTS),
        st.text(TEXT_ALPHABET, min_size=1, max_size=24).map(lambda s: s.strip()).filter(bool),
    )


@st.composite
def info_fields(draw, v):
    v = tuple(v)
    if v == V100:
        attrs = ["matchFileVersion"] + V1_STR_ATTRS + V1_FLOAT_ATTRS + V1_INT_ATTRS
    else:
        attrs = (["matchFileVersion", "keySignature", "keySignature", "timeSignature", "timeSignature", "partSequence"]
                 + V0_STR_ATTRS + V0_FLOAT_ATTRS + V0_INT_ATTRS + V0_LIST_ATTRS)
    attr = draw(st.sampled_from(attrs))
    typ = info_value_type(v, attr)
    if typ == "version":
        # make_info (1.0.0) insists on value == version; older lines may carry any version value
        value = list(v) if (v == V100 or draw(st.booleans())) else [draw(st.integers(0, 3)), draw(st.integers(0, 12)), draw(st.integers(0, 30))]
    elif typ == "key":
        style = key_style(v, "info")
        value = draw(key_spec(alt_ok=style != "v01", others_ok=style == "v03list"))
    elif typ == "timesig":
        value = draw(timesig_spec(others_ok=timesig_as_list(v, "info")))
    elif typ in ("str", "qstr"):
        value = draw(free_text())
    elif typ == "float":
        value = draw(time_float(4))
    elif typ == "ufloat":
        value = draw(free_float())
    elif typ == "int":
        value = draw(st.one_of(st.sampled_from([480, 4000, 500000, 1, 960]), st.integers(0, 10000000)))
    elif typ == "list":
        if attr.startswith("beatSub"):
            value = [("%d" % x) for x in draw(st.lists(st.integers(1, 12), min_size=0, max_size=4))]
        else:
            value = draw(attr_list(0, 4))
    return {"attr": attr, "value": value}


@st.composite
def line_spec(draw, tier="quick", versions=None, kinds=None):
    v = draw(st.sampled_from(versions or ALL_VERSIONS))
    pool = [k for k in (kinds or kinds_of(v)) if k in kinds_of(v)]
    kind = draw(st.sampled_from(pool))
    spec = {"v": list(v), "kind": kind}
    if kind in ("snote", "snote_note", "deletion", "trailing_score", "no_played"):
        spec["snote"] = draw(snote(v))
    if kind in ("note", "snote_note", "insertion", "hammer_bounce", "trailing_played", "trill", "ornament"):
        spec["note"] = draw(pnote(v))
    if kind in ("trill", "ornament"):
        spec["anchor"] = draw(ident())
    if kind == "ornament":
        spec["types"] = draw(st.one_of(st.sampled_from([["trill"], ["mordent"], ["generic_ornament"], []]), attr_list(0, 3)))
    if kind in ("sustain", "soft"):
        spec["time"] = draw(st.one_of(st.integers(0, 3000), st.integers(0, 5000000)))
        spec["value"] = draw(st.one_of(st.integers(0, 127), st.sampled_from([0, 127, 64, 63])))
    if kind == "info":
        spec.update(draw(info_fields(v)))
    if kind == "meta":
        spec["attr"] = draw(st.sampled_from(["keySignature", "timeSignature"]))
        spec["value"] = draw(key_spec()) if spec["attr"] == "keySignature" else draw(timesig_spec(False))
        spec["measure"] = draw(st.integers(0, 300))
        spec["time"] = draw(free_float())
    if kind == "scoreprop":
        spec["attr"] = draw(st.sampled_from(["keySignature", "keySignature", "timeSignature", "tempoIndication", "beatSubDivision", "directions"]))
        a = spec["attr"]
        if a == "keySignature":
            spec["value"] = draw(key_spec())
        elif a == "timeSignature":
            spec["value"] = draw(timesig_spec(False))
        elif a == "tempoIndication":
            spec["value"] = draw(st.one_of(st.sampled_from(["Allegro", "Lento ma non troppo", "Andante con moto"]),
                                           st.text("abcdefghijklmnopqrstuvwxyzABCDEFGH .", min_size=1, max_size=16).map(lambda s: s.strip()).filter(bool)))
        elif a == "beatSubDivision":
            spec["value"] = draw(st.lists(st.integers(1, 12), min_size=1, max_size=4))
        else:
            spec["value"] = draw(attr_list(0, 4))
        spec["measure"] = draw(st.integers(0, 300))
        spec["beat"] = draw(st.integers(1, 12))
        spec["offset"] = draw(duration())
        spec["time"] = draw(time_float(4))
    if kind == "section":
        spec["times"] = [draw(time_float(4)) for _ in range(4)]
        spec["types"] = draw(st.one_of(st.sampled_from([["end"], ["fine", "volta end"], ["repeat left"], []]), attr_list(0, 3)))
    if kind in ("stime", "stime_ptime"):
        spec["measure"] = draw(st.integers(0, 300))
        spec["beat"] = draw(st.integers(1, 12))
        spec["offset"] = draw(duration())
        spec["onset"] = draw(time_float(4))
        spec["types"] = draw(st.lists(st.one_of(st.sampled_from(["beat", "downbeat"]), st.text("abcdefghijklmnopqrstuvwxyz", min_size=1, max_size=6)), max_size=3))
    if kind in ("ptime", "stime_ptime"):
        spec["onsets"] = draw(st.lists(st.integers(0, 5000000), min_size=1, max_size=5))
    return spec
