"""C19 - independent Humdrum **kern renderer: abstract score (c19_model.Model) -> kern text + expected content.

The statement of what the notation means; shares no code with partitura's kern
exporter.  Only what ``partitura.io.importkern`` documents / implements is written:

* one ``**kern`` spine per voice (each spine rhythmically complete, filler rests
  where the voice is silent), optionally one further voice as a sub-spine opened
  with ``*^`` after a bar line and closed with ``*v *v``;
* tokens ``[tie-open] recip dots pitch accidental [q] [tie-continue/-close] [beam]``,
  chords as space separated tokens, rests ``r``, null tokens ``.``, grace notes on
  their own line in front of the main note;
* bar lines ``=N`` (first one optional / invisible, last one ``==``), tandem
  interpretations ``*staffN *clefXn *k[...] *Mn/d *MMn``, key designations ``*G:``;
* either every spine is a part of its own, or all spines carry the same ``*part1``
  / the same instrument code and form one part (the two groupings the reader knows).

Ties are only written between two single notes that directly follow each other in
their spine (the reader documents "note to chord tie or chord to note tie is not
handled yet"); other ties of the abstract score are dropped from the text AND from
the expectation.
"""

from fractions import Fraction

from hypothesis import strategies as st

from pbt.gen.c19_model import recip, Unrenderable

# (token, sign, line, octave_change)
CLEFS = [("*clefG2", "G", 2, 0), ("*clefF4", "F", 4, 0), ("*clefC3", "C", 3, 0), ("*clefC4", "C", 4, 0), ("*clefGv2", "G", 2, -1),
         ("*clefG", "G", 2, 0), ("*clefF", "F", 4, 0), ("*clefC1", "C", 1, 0), ("*clefF3", "F", 3, 0)]
SHARPS = ["f#", "c#", "g#", "d#", "a#", "e#", "b#"]
FLATS = ["b-", "e-", "a-", "d-", "g-", "c-", "f-"]
KEY_NAMES = {"major": ["C", "G", "D", "A", "E", "B", "F#", "C#"], "flat": ["C", "F", "B-", "E-", "A-", "D-", "G-", "C-"]}

options = st.fixed_dictionaries(
    {
        "mode": st.sampled_from(["separate", "separate", "same-part", "same-instrument"]),
        "sub": st.lists(st.booleans(), min_size=4, max_size=4),
        "sub_len": st.integers(0, 3),
        "staff": st.sampled_from(["none", "none", "tokens"]),
        "staff_no": st.lists(st.integers(1, 3), min_size=4, max_size=4),
        "clef0": st.lists(st.one_of(st.none(), st.integers(0, len(CLEFS) - 1)), min_size=4, max_size=4),
        "clef_changes": st.lists(st.tuples(st.integers(0, 3), st.integers(1, 3), st.integers(0, len(CLEFS) - 1)), max_size=2),
        "first_barline": st.sampled_from(["numbered", "invisible", "none"]),
        "final_barline": st.sampled_from(["==", "==", "=", "none"]),
        "bar_decor": st.sampled_from(["", "", ":|!", "!|:", "||"]),
        "beam": st.booleans(),
        "grace_form": st.sampled_from(["q", "8q", "16q"]),
        "natural": st.lists(st.booleans(), min_size=5, max_size=5),
        "tie_first": st.booleans(),
        "tie_over_grace": st.sampled_from([False, False, False, True]),
        "sub_leading_grace": st.booleans(),
        "sub_midbar": st.integers(0, 3),
        "records": st.booleans(),
        "local_comment": st.booleans(),
        "dynam": st.booleans(),
        "key_designation": st.booleans(),
        "tempo": st.booleans(),
        "instrument": st.booleans(),
        "met": st.booleans(),
        "ext": st.sampled_from([".krn", ".krn", ".kern", ".KRN"]),
        # through load_score (reader picked from the extension) or through load_kern itself, with its documented parameters
        "loader": st.sampled_from(["load_score", "load_score", "load_score", "load_kern", "load_kern-force-same-part", "load_kern-force-note-ids"]),
    }
)


LATER_OPTIONS = {"tie_over_grace": False, "sub_leading_grace": False, "sub_midbar": 0, "loader": "load_score"}


def kern_pitch(step, alter, octave, natural):
    if octave >= 4:
        p = step.lower() * (octave - 3)
    else:
        p = step.upper() * (4 - octave)
    if alter > 0:
        p += "#" * alter
    elif alter < 0:
        p += "-" * (-alter)
    elif natural:
        p += "n"
    return p


def recip_token(sym):
    r, dots = recip(sym)
    if r == Fraction(1, 2):
        return "0" + "." * dots  # breve
    if r == Fraction(1, 4):
        return "00" + "." * dots  # long
    if r.denominator != 1:
        # e.g. a quintuplet of whole notes (5/4 of a whole): plain reciprocals cannot say it
        raise Unrenderable("value without an integral reciprocal %r" % (sym,))
    return "%d%s" % (r.numerator, "." * dots)


def render(model, opt):
    """Return (kern text, expected)."""
    opt = dict(LATER_OPTIONS, **opt)  # replay files written before an option existed
    nbars = len(model.bars)
    voices = list(model.voices)
    # ---- columns: top level spines and at most one sub-spine per top level spine ----------------
    spines = []  # dicts: voice, sub: None | dict(voice, first, last)
    for i, v in enumerate(voices):
        fb = model.first_bar(v)
        if i > 0 and opt["sub"][i % 4] and spines[-1]["sub"] is None:
            last = min(nbars - 1, fb + opt["sub_len"])
            spines[-1]["sub"] = {"voice": v, "first": fb, "last": last}
        else:
            spines.append({"voice": v, "sub": None})
    # a split inside the first bar of the sub-spine: at an onset that the parent spine shares (the reader takes the position of a
    # line from the first spine of the part) and that does not cut a tuplet group; earlier events of the voice are not written
    for k, sp in enumerate(spines):
        if sp["sub"] is None:
            continue
        sub = sp["sub"]
        sub["first_t"] = model.bars[sub["first"]][0]
        if opt["sub_midbar"]:
            evs = model.vb[sub["voice"]][sub["first"]]
            parent = spine_events_cached(model, spines, k, sub["first"])
            ponsets = set(e["t"] for e in parent)
            cand = [e["t"] for e in evs[1:] if (e["tup"] is None or e["tup"][1] == 0) and e["t"] in ponsets]
            if cand:
                sub["first_t"] = cand[(opt["sub_midbar"] - 1) % len(cand)]

    def sub_events(k, b):
        sub = spines[k]["sub"]
        return [e for e in (model.vb[sub["voice"]][b] or []) if e["t"] >= sub["first_t"]]

    if opt["sub_leading_grace"]:
        # a sub-spine that opens after the first bar starts with a grace note: its first token stands on a line where the parent spine has a null token
        for k, sp in enumerate(spines):
            if sp["sub"] is not None and sp["sub"]["first"] > 0:
                ev = sub_events(k, sp["sub"]["first"])[0]
                if ev["kind"] != "rest" and not ev["graces"] and "tie_prev" not in ev["notes"][0]:
                    ev["graces"] = [{"id": "lg%d" % k, "kind": "grace", "step": "D", "alter": 0, "octave": 4, "sym": {"type": "eighth"}}]
    n = len(spines)
    mode = opt["mode"]
    # load_kern(force_same_part=True) puts all spines into one part whatever the file says
    same_part = mode in ("same-part", "same-instrument") or opt.get("loader") == "load_kern-force-same-part"
    counters = {"nat": 0}

    # ---- ties that the reader documents to understand ----------------------------------------------------
    # both ends single notes, the second directly following the first in the same column, no grace note between
    seq = {}  # column key -> list of events in file order
    for k, sp in enumerate(spines):
        col = []
        for b in range(nbars):
            col.extend(spine_events_cached(model, spines, k, b))
        seq[(k, 0)] = col
        if sp["sub"] is not None:
            col = []
            for b in range(sp["sub"]["first"], sp["sub"]["last"] + 1):
                col.extend(sub_events(k, b))
            seq[(k, 1)] = col
    tie_ok = set()
    over_grace = []
    rendered_ids = set()
    for key, col in seq.items():
        for e in col:
            for nn in e["notes"] + e["graces"]:
                rendered_ids.add(nn["id"])
    tie_next = dict(model.ties)
    for key, col in seq.items():
        for e1, e2 in zip(col, col[1:]):
            if e1["kind"] == "note" and e2["kind"] == "note" and (not e2["graces"] or opt["tie_over_grace"]):
                a, b2 = e1["notes"][0]["id"], e2["notes"][0]["id"]
                if tie_next.get(a) == b2:
                    tie_ok.add((a, b2))
                    if e2["graces"]:
                        over_grace.append((a, b2))
    starts = set(a for a, _ in tie_ok)
    stops = set(b2 for _, b2 in tie_ok)
    dropped_ties = [t for t in model.ties if t not in tie_ok and t[0] in rendered_ids and t[1] in rendered_ids]

    def note_token(nn, sym, grace=False, beam=""):
        nat = opt["natural"][counters["nat"] % len(opt["natural"])]
        counters["nat"] += 1
        p = kern_pitch(nn["step"], nn["alter"] or 0, nn["octave"], nat)
        if grace:
            form = opt["grace_form"]
            return (form[:-1] + p + "q") if form != "q" else (p + "q")
        tok = recip_token(sym) + p
        pre = ""
        post = ""
        if nn["id"] in starts and nn["id"] in stops:
            post = "_"
        elif nn["id"] in starts:
            pre = "["
        elif nn["id"] in stops:
            post = "]"
        if opt["tie_first"]:
            return pre + tok + post + beam
        return pre + tok + beam + post

    def beamable(e):
        return e["kind"] in ("note", "chord") and e["sym"]["type"] in ("eighth", "16th", "32nd", "64th", "128th")

    def event_token(e, beam=""):
        if e["kind"] == "rest":
            return recip_token(e["sym"]) + "r"
        toks = []
        for j, nn in enumerate(e["notes"]):
            toks.append(note_token(nn, e["sym"], beam=beam if j == 0 else ""))
        return " ".join(toks)

    # ---- expected -------------------------------------------------------------------------------------------
    def staff_of(k):
        if opt["staff"] == "tokens":
            return opt["staff_no"][k % 4]
        return 1

    if same_part:
        expected_parts = [{"notes": [], "ties": [], "measures": [], "clefs": [], "key_mode_not_encoded": True, "ignore_empty_last_measure": True}]
    else:
        expected_parts = [{"notes": [], "ties": [], "measures": [], "clefs": [], "key_mode_not_encoded": True, "ignore_empty_last_measure": True} for _ in range(n)]

    def exp_of(k):
        # the reader returns the parts in reversed spine order
        return expected_parts[0] if same_part else expected_parts[n - 1 - k]

    voice_no = {}
    running = 0
    for k, sp in enumerate(spines):
        if not same_part:
            running = 0
        running += 1
        voice_no[(k, 0)] = running
        if sp["sub"] is not None:
            running += 1
            voice_no[(k, 1)] = running

    def expect_event(e, k, sub):
        exp = exp_of(k)
        voice, staff = voice_no[(k, sub)], staff_of(k)
        on, du = model.q(e["t"]), model.q(e["dur"])
        for g in e["graces"]:
            exp["notes"].append(dict(id=g["id"], kind="grace", onset=on, dur=Fraction(0), step=g["step"], alter=g["alter"] or 0, octave=g["octave"], voice=voice, staff=staff))
        if e["kind"] == "rest":
            exp["notes"].append(dict(id=e["id"], kind="rest", onset=on, dur=du, step=None, alter=None, octave=None, voice=voice, staff=staff))
        for nn in e["notes"]:
            exp["notes"].append(dict(id=nn["id"], kind="note", onset=on, dur=du, step=nn["step"], alter=nn["alter"] or 0, octave=nn["octave"], voice=voice, staff=staff))

    # ---- rows ---------------------------------------------------------------------------------------------------
    rows = []
    active_sub = [False] * n  # is the sub-spine of spine k open

    def ncols():
        return sum(2 if active_sub[k] else 1 for k in range(n)) + (1 if opt["dynam"] else 0)

    def row_all(tok, dyn=None):
        cells = []
        for k in range(n):
            cells.append(tok)
            if active_sub[k]:
                cells.append(tok)
        if opt["dynam"]:
            cells.append(tok if dyn is None else dyn)
        rows.append(cells)

    def row_per_spine(fn, default="*", dyn=None):
        """fn(k, sub) -> token or None"""
        cells = []
        for k in range(n):
            cells.append(fn(k, 0) or default)
            if active_sub[k]:
                cells.append(fn(k, 1) or default)
        if opt["dynam"]:
            cells.append(default if dyn is None else dyn)
        rows.append(cells)

    if opt["records"]:
        rows.append(["!!!COM: Nobody, N."])
        rows.append(["!!!OTL: c19 generated"])
    hdr = ["**kern"] * n + (["**dynam"] if opt["dynam"] else [])
    rows.append(hdr)
    if mode == "same-part":
        row_all("*part1", dyn="*")
    elif mode == "same-instrument":
        row_all("*Ipiano", dyn="*")
    elif opt["instrument"] and n <= 4:
        names = ["*Ibass", "*Itenor", "*Ialto", "*Isoprn"]
        row_per_spine(lambda k, s: names[k % 4])
    if opt["staff"] == "tokens":
        row_per_spine(lambda k, s: "*staff%d" % staff_of(k))
    clef_now = {}
    if any(opt["clef0"][k % 4] is not None for k in range(n)):
        def c0(k, s):
            ci = opt["clef0"][k % 4]
            return CLEFS[ci][0] if ci is not None else None
        row_per_spine(c0)
        for k in range(n):
            ci = opt["clef0"][k % 4]
            if ci is not None and (not same_part or k == 0):
                exp_of(k)["clefs"].append((Fraction(0), staff_of(k)) + CLEFS[ci][1:])
    ks0 = model.keysigs[0] if model.keysigs and model.keysigs[0][0] == 0 else None

    def key_token(f):
        return "*k[%s]" % "".join(SHARPS[:f] if f >= 0 else FLATS[:-f])

    if ks0 is not None:
        row_all(key_token(ks0[1]), dyn="*")
        if opt["key_designation"]:
            f = ks0[1]
            name = KEY_NAMES["major"][f] if f >= 0 else KEY_NAMES["flat"][-f]
            row_all("*%s:" % name, dyn="*")
    ts0 = model.timesigs[0]
    row_all("*M%d/%d" % (ts0[1], ts0[2]), dyn="*")
    if opt["met"] and (ts0[1], ts0[2]) == (4, 4):
        row_all("*met(c)", dyn="*")
    if opt["tempo"]:
        row_all("*MM96", dyn="*")
    ts_changes = {t: (b, bt) for t, b, bt in model.timesigs if t > 0}
    ks_changes = {t: f for t, f, m in model.keysigs if t > 0}
    clef_changes = {}
    for (k, b, ci) in opt["clef_changes"]:
        k = k % n
        b = b % nbars
        if b > 0:
            clef_changes.setdefault(b, {}).setdefault(k, ci)

    pickup = model.pickup is not None
    first_barline = "none" if pickup else opt["first_barline"]
    if first_barline == "none" and nbars == 1 and opt["final_barline"] == "none":
        first_barline = "numbered"  # a file without any bar line is not generated
    for b, (s, e, _i) in enumerate(model.bars):
        number = b if pickup else b + 1
        name = None
        if b == 0:
            if first_barline == "numbered":
                row_all("=%d" % number)
                name = number
            elif first_barline == "invisible":
                row_all("=%d-" % number)
                name = number
        else:
            row_all("=%d%s" % (number, opt["bar_decor"] if b == nbars - 1 else ""))
            name = number
        for k in range(n):
            if not same_part or k == 0:
                exp_of(k)["measures"].append((model.q(s), model.q(e), name))
        # close sub-spines that ended with the previous bar
        for k, sp in enumerate(spines):
            if active_sub[k] and sp["sub"]["last"] < b:
                cells = []
                for kk in range(n):
                    if kk == k:
                        cells.extend(["*v", "*v"])
                    else:
                        cells.append("*")
                        if active_sub[kk]:
                            cells.append("*")
                if opt["dynam"]:
                    cells.append("*")
                rows.append(cells)
                active_sub[k] = False
        if b > 0:
            if s in ks_changes:
                row_all(key_token(ks_changes[s]), dyn="*")
            if s in ts_changes:
                row_all("*M%d/%d" % ts_changes[s], dyn="*")
            if b in clef_changes:
                cc = clef_changes[b]
                row_per_spine(lambda k, sub: CLEFS[cc[k]][0] if k in cc else None)
                for k, ci in cc.items():
                    if not same_part or k == 0:
                        exp_of(k)["clefs"].append((model.q(s), staff_of(k)) + CLEFS[ci][1:])
        # open sub-spines that start with this bar
        for k, sp in enumerate(spines):
            if sp["sub"] is not None and sp["sub"]["first"] == b and sp["sub"]["first_t"] == s:
                cells = []
                for kk in range(n):
                    cells.append("*^" if kk == k else "*")
                    if active_sub[kk]:
                        cells.append("*")
                if opt["dynam"]:
                    cells.append("*")
                rows.append(cells)
                active_sub[k] = True
        if opt["local_comment"] and b == 0:
            row_all("!")
        # ---- data rows of the bar
        cols = {}
        for k, sp in enumerate(spines):
            cols[(k, 0)] = spine_events_cached(model, spines, k, b)
            if active_sub[k] or (sp["sub"] is not None and sp["sub"]["first"] == b):
                cols[(k, 1)] = sub_events(k, b)
        beams = {}
        if opt["beam"]:
            for key, evs in cols.items():
                i = 0
                while i < len(evs):
                    j = i
                    while j < len(evs) and beamable(evs[j]) and not (j > i and evs[j]["graces"]):
                        j += 1
                    if j - i >= 2:
                        beams[id(evs[i])] = "L"
                        beams[id(evs[j - 1])] = "J"
                    i = max(j, i + 1)
        times = sorted(set(ev["t"] for evs in cols.values() for ev in evs))
        at = {key: {ev["t"]: ev for ev in evs} for key, evs in cols.items()}
        for t in times:
            for k, sp in enumerate(spines):
                if sp["sub"] is not None and sp["sub"]["first"] == b and sp["sub"]["first_t"] == t and not active_sub[k]:
                    cells = []
                    for kk in range(n):
                        cells.append("*^" if kk == k else "*")
                        if active_sub[kk]:
                            cells.append("*")
                    if opt["dynam"]:
                        cells.append("*")
                    rows.append(cells)
                    active_sub[k] = True
            ng = max(len(at[key][t]["graces"]) if t in at[key] else 0 for key in cols)
            for j in range(ng):
                def gtok(k, sub):
                    ev = at.get((k, sub), {}).get(t)
                    if ev is None:
                        return None
                    gs = ev["graces"]
                    # right aligned: the last grace note stands directly in front of the main note
                    idx = j - (ng - len(gs))
                    if 0 <= idx < len(gs):
                        return note_token(gs[idx], gs[idx]["sym"], grace=True)
                    return None
                row_per_spine(gtok, default=".")

            def etok(k, sub):
                ev = at.get((k, sub), {}).get(t)
                if ev is None:
                    return None
                return event_token(ev, beams.get(id(ev), ""))
            row_per_spine(etok, default=".")
        for key, evs in cols.items():
            for ev in evs:
                expect_event(ev, key[0], key[1])
    if opt["final_barline"] != "none":
        row_all(opt["final_barline"])
    for k, sp in enumerate(spines):
        if active_sub[k]:
            cells = []
            for kk in range(n):
                if kk == k:
                    cells.extend(["*v", "*v"])
                else:
                    cells.append("*")
                    if active_sub[kk]:
                        cells.append("*")
            if opt["dynam"]:
                cells.append("*")
            rows.append(cells)
            active_sub[k] = False
    row_all("*-")
    if opt["records"]:
        rows.append(["!!!ENC: c19"])
    text = "\n".join("\t".join(r) for r in rows) + "\n"

    for exp in expected_parts:
        ids = set(x["id"] for x in exp["notes"])
        exp["ties"] = [t for t in sorted(tie_ok) if t[0] in ids and t[1] in ids]
        exp["timesigs"] = [(model.q(t), b, bt) for t, b, bt in model.timesigs]
        exp["keysigs"] = [(model.q(t), f, None) for t, f, m in model.keysigs]
    expected = {
        "parts": expected_parts,
        "same_part": same_part,
        "nspines": n,
        "has_split": any(sp["sub"] is not None for sp in spines),
        "split_inside_bar": any(sp["sub"] is not None and sp["sub"]["first_t"] != model.bars[sp["sub"]["first"]][0] for sp in spines),
        "nsubs": sum(1 for sp in spines if sp["sub"] is not None),
        "dropped_ties": len(dropped_ties),
        "kept_ties": len(tie_ok),
        "ties_over_grace": len(over_grace),
        "final_barline": opt["final_barline"] != "none",
        "has_breve_or_long": any(e["sym"]["type"] in ("breve", "long") for col in seq.values() for e in col),
        # a column whose reciprocals have the least common multiple 3 (whole notes and half-note triplets only)
        "recip_lcm_three": any(_lcm([recip(e["sym"])[0] for e in col]) == 3 for col in seq.values() if col),
    }
    return text, expected


def _lcm(values):
    from math import gcd

    out = 1
    for v in values:
        if v.denominator != 1:
            return None
        out = out * int(v) // gcd(out, int(v))
    return out


def spine_events_cached(model, spines, k, b):
    """Events of top level spine k in bar b; filler rests are created once and remembered on the model."""
    cache = model.__dict__.setdefault("_kern_fill", {})
    v = spines[k]["voice"]
    evs = model.vb[v][b]
    if evs is not None:
        return evs
    if (k, b) not in cache:
        cache[(k, b)] = model.filler(b, prefix="k%d_" % k)
    return cache[(k, b)]
