"""Generators and builders for property C08 (alignment -> match file -> load).

A case is a JSON spec

    {"part": <shared ScoreSpec part, decorated>, "ppq", "mpq",
     "pnotes": [{"id", "pitch", "on", "off", "vel", "track", "channel"}],   # seconds as floats
     "controls": [{"number", "time", "value"}],
     "alignment": [{"label", "score_id"?, "performance_id"?, "type"?}],
     "unfolded": bool, "score_as": "part|score|list", "perf_as": "ppart|performance|list",
     "pp_clock": "same|default"}

The score comes from the shared generator (one divisions value, bar-line signature
changes only, complete final bar) and is decorated here with articulations, fermatas
and fingerings.  The performance is built in the tick domain of the drawn (ppq, mpq):
every time is ``k + f`` ticks with f from a labelled set (exact, small, close to +-.5,
exactly .5) so that the expected tick is known exactly.  Every sounding score note is
matched or deleted, every performed note is a match, an insertion or an ornament.
"""

from fractions import Fraction

from hypothesis import strategies as st

from pbt.gen import scorespec as G

MILLION = 10 ** 6

# FractionalSymbolicDuration approximates fractions whose numerator or denominator
# exceeds 1024 (documented bound) -> keep divisions small (denominators are 4*divs at most)
DIVS = [1, 2, 3, 4, 4, 6, 8, 12, 12, 16, 24, 24, 48, 96]

PROFILE = G.profile(
    max_bars=4,
    max_voices=3,
    max_staves=3,  # audit: a third staff (organ, piano with ossia)
    pickup=True,
    irregular=False,
    ts_changes=True,
    div_changes=False,
    midbar_changes=False,
    key_changes=True,
    clefs=False,
    rests=True,
    chords=True,
    ties=True,
    grace=True,
    tuplets=True,
    divs_choices=DIVS,
    alters=(-2, -1, -1, 0, 0, 0, 0, 0, 1, 1, 2),  # audit: double sharps and flats are pitch spellings too
)
HEADER_TEXTS = ["Etude Op. 10 No. 3", "A. Human Pianist", "Frèdéryk Chopin", "Sonata No. 14, Op. 27 (1st mov.)", "K. 265", "x",
                "Chopin_op10_no3_p01.mid", "/data/scores/op10 no3.musicxml"]

PPQS = [480, 480, 480, 96, 384, 960, 1000, 4000, 1, 24, 10000]
MPQS = [500000, 500000, 500000, 250000, 1000000, 600000, 333333, 468750, 4000000]
FRACS = [Fraction(0), Fraction(0), Fraction(0), Fraction(1, 4), Fraction(-1, 4), Fraction(2, 5), Fraction(-2, 5),
         Fraction(49, 100), Fraction(-49, 100), Fraction(1, 1000), Fraction(1, 2)]
ARTICULATIONS = ["staccato", "accent", "tenuto", "staccatissimo", "strong-accent"]
ORNAMENT_TYPES = ["trill", "mordent", "turn", "generic_ornament"]


def seconds(x, ppq, mpq):
    """Seconds (float) of the tick position x (Fraction)."""
    return float(Fraction(x) * mpq / (MILLION * ppq))


@st.composite
def _tickpos(draw, lo, hi):
    k = draw(st.integers(lo, hi))
    f = draw(st.sampled_from(FRACS))
    x = Fraction(k) + f
    if x < 0:
        x = Fraction(k)
    return x


def ensure_edge_onsets(ps):
    """Make the first and the last bar contain the onset of a sounding note (in place).

    The match format knows bars only through the notes that start in them, so a leading or
    trailing bar of rests (or of tied-over notes) is not part of what a file can express.
    A rest of such a bar becomes a note; if the bar holds tied continuations only, the tie
    into the bar is cut.
    """
    byid = {n["id"]: n for n in ps["notes"]}
    for m in (ps["measures"][0], ps["measures"][-1]):
        inbar = [n for n in ps["notes"] if m[0] <= n["t"] < m[1]]
        if any(n["kind"] in ("note", "grace") and not n.get("tie_prev") for n in inbar):
            continue
        inbar.sort(key=lambda n: (n.get("voice") or 0, n["t"]))
        rests = [n for n in inbar if n["kind"] == "rest"]
        if rests:
            n = rests[0]
            n["kind"] = "note"
            n["step"], n["alter"], n["octave"] = "C", 0, 4
            continue
        tied = [n for n in inbar if n.get("tie_prev")]
        if tied:
            n = tied[0]
            prev = byid[n.pop("tie_prev")]
            prev.pop("tie_next", None)
    return ps


@st.composite
def case(draw, tier="quick"):
    prof = dict(PROFILE)
    if tier == "thorough":
        prof["max_bars"] = 6
    ps = ensure_edge_onsets(draw(G.part_spec(prof)))
    # a key that comes back (A B A on three successive bar lines): every seventh score with three or more bars
    if len(ps["measures"]) >= 3 and prof.get("key_changes", True) and draw(st.integers(0, 6)) == 0:
        a = [draw(st.integers(-7, 7)), draw(st.sampled_from(["major", "minor", None]))]
        b = [draw(st.integers(-7, 7).filter(lambda f: f != a[0])), draw(st.sampled_from(["major", "minor", None]))]
        ps["keysigs"] = [[ps["measures"][0][0]] + a, [ps["measures"][1][0]] + b, [ps["measures"][2][0]] + a]
    # ---- audit: voice numbers with gaps, of two digits, starting at 0; naturals stated as alter=None --------
    vmode = draw(st.sampled_from(["same", "same", "same", "gaps", "gaps", "zero"]))
    voices = sorted(set(n["voice"] for n in ps["notes"] if n.get("voice") is not None))
    if vmode != "same" and voices:
        cur = -1 if vmode == "zero" else 0
        vmap = {}
        for i, v in enumerate(voices):
            cur += 1 if (vmode == "zero" and i == 0) else draw(st.sampled_from([1, 2, 4, 9]))
            vmap[v] = cur
        for n in ps["notes"]:
            if n.get("voice") is not None:
                n["voice"] = vmap[n["voice"]]
    for n in ps["notes"]:
        if n["kind"] in ("note", "grace") and n["alter"] == 0 and draw(st.integers(0, 3)) == 0:
            n["alter"] = None
    # a tie joins notes of one pitch: keep both ends spelled alike
    byid_ = {n["id"]: n for n in ps["notes"]}
    for n in ps["notes"]:
        if n.get("tie_next"):
            byid_[n["tie_next"]]["alter"] = n["alter"]
    # ---- decorate the score notes ---------------------------------------------------
    for n in ps["notes"]:
        if n["kind"] not in ("note", "grace"):
            continue
        if draw(st.integers(0, 5)) == 0:
            k = draw(st.integers(1, 2))
            n["art"] = sorted(set(draw(st.sampled_from(ARTICULATIONS)) for _ in range(k)))
        if n["kind"] == "note" and draw(st.integers(0, 11)) == 0:
            n["fermata"] = True
        if draw(st.integers(0, 11)) == 0:
            n["fingering"] = draw(st.integers(1, 5))
    ref = G.PartRef(ps)
    sounding = ref.sounding_notes()
    ppq = draw(st.one_of(st.sampled_from(PPQS), st.integers(1, 20000)))
    mpq = draw(st.one_of(st.sampled_from(MPQS), st.integers(1000, 4000000)))
    # ticks per division of the score: a tempo that keeps ticks in a sane range
    tpd = draw(st.sampled_from([1, 2, 3, 7, 10, 25, 60]))
    t0 = draw(st.sampled_from([0, 0, 1, 5, 100, 1000]))
    pid_style = draw(st.sampled_from(["n", "n", "n", "digits"]))
    counter = [0]

    def new_pid():
        counter[0] += 1
        return ("n%d" if pid_style == "n" else "%d") % counter[0]

    pnotes = []
    alignment = []

    def pnote(pitch, around_t, dur_divs):
        base = t0 + around_t * tpd
        jit = draw(st.integers(-tpd, tpd)) if draw(st.booleans()) else 0
        on = draw(_tickpos(max(0, base + jit), max(0, base + jit)))
        if draw(st.integers(0, 7)) == 0:
            length = Fraction(draw(st.sampled_from([0, 0, 1])))
        else:
            length = draw(_tickpos(0, max(1, dur_divs * tpd)))
        off = on + max(length, Fraction(0))
        n = {
            "id": new_pid(),
            "pitch": pitch,
            "on": seconds(on, ppq, mpq),
            "off": seconds(off, ppq, mpq),
            "vel": draw(st.integers(0, 127)),
            "track": draw(st.sampled_from([0, 0, 0, 1, 3])),
            "channel": draw(st.sampled_from([1, 1, 0, 9, 15])),
        }
        if n["off"] < n["on"]:
            n["off"] = n["on"]
        pnotes.append(n)
        return n

    all_deleted = draw(st.integers(0, 39)) == 17  # rare (a middle value: Hypothesis favours the ends of a range)
    for (t, dur, pitch, hid, ids) in sounding:
        lab = "deletion" if all_deleted else draw(st.sampled_from(["match", "match", "match", "deletion"]))
        if lab == "match":
            p = pitch if draw(st.integers(0, 9)) else draw(st.integers(21, 108))
            n = pnote(p, t, dur)
            alignment.append({"label": "match", "score_id": hid, "performance_id": n["id"]})
        else:
            alignment.append({"label": "deletion", "score_id": hid})
    end = ps["end"]
    for _ in range(draw(st.sampled_from([0, 0, 1, 2, 3]))):
        n = pnote(draw(st.integers(21, 108)), draw(st.integers(0, end)), draw(st.integers(1, 8)))
        alignment.append({"label": "insertion", "performance_id": n["id"]})
    if sounding:
        for _ in range(draw(st.sampled_from([0, 0, 0, 1, 2, 3]))):
            (t, dur, pitch, hid, ids) = sounding[draw(st.integers(0, len(sounding) - 1))]
            n = pnote(min(127, pitch + draw(st.integers(0, 2))), t, max(1, dur))
            ty = draw(st.sampled_from(ORNAMENT_TYPES))
            if draw(st.booleans()):
                ty = [ty]  # the shape load_match returns for 1.0.0 files
            alignment.append({"label": "ornament", "score_id": hid, "performance_id": n["id"], "type": ty})
    alignment = list(draw(st.permutations(alignment)))
    # ---- pedals and other controllers -------------------------------------------------------
    controls = []
    nctl = draw(st.sampled_from([0, 0, 1, 2, 4, 8]))
    maxtick = t0 + (end + 4) * tpd
    for _ in range(nctl):
        x = draw(_tickpos(0, maxtick))
        controls.append({
            "number": draw(st.sampled_from([64, 64, 64, 67, 67, 66, 1])),
            "time": seconds(x, ppq, mpq),
            "value": draw(st.sampled_from([0, 0, 127, 64, 63, 65])) if draw(st.booleans()) else draw(st.integers(0, 127)),
        })
    if draw(st.integers(0, 3)):
        controls.sort(key=lambda c: c["time"])
    return {
        "part": ps,
        "ppq": ppq,
        "mpq": mpq,
        "pnotes": pnotes,
        "controls": controls,
        "alignment": alignment,
        "unfolded": draw(st.sampled_from([True, True, False])),
        "score_as": draw(st.sampled_from(["part", "part", "score", "list"])),
        "perf_as": draw(st.sampled_from(["ppart", "ppart", "performance", "list"])),
        "pp_clock": draw(st.sampled_from(["same", "same", "default"])),
        **_audit_options(draw, ps, sounding),
    }


def _audit_options(draw, ps, sounding):
    """Dimensions added by the generator audit (docs/audit/C08.md); every key is read with spec.get()."""
    api = draw(st.sampled_from(["save_match", "save_match", "from_alignment"]))
    opt = {
        "api": api,
        # save_match documents a PartGroup as score_data
        "score_in_group": draw(st.integers(0, 4)) == 0,
        # out: a str, a pathlib.Path, or None (the MatchFile is returned and written by the caller)
        "out_as": draw(st.sampled_from(["str", "str", "pathlib", "none"])),
        "header": None,
        "bare_controls": draw(st.integers(0, 2)) == 0,  # pedal dictionaries as the match importer makes them
        "pp_build": draw(st.sampled_from(["dict", "dict", "note_array"])),
        "resave": draw(st.sampled_from([True, True, False])),
        "reload": None,
        "tempo_indication": None,
        "diff_notes": [],
    }
    if draw(st.integers(0, 2)) == 0:
        names = ["performer", "composer", "piece", "score_filename", "performance_filename"]
        opt["header"] = {k: draw(st.sampled_from(HEADER_TEXTS)) for k in names if draw(st.booleans())}
        opt["header_path"] = draw(st.booleans())  # score_filename given as pathlib.Path (documented PathLike)
    if draw(st.integers(0, 2)) == 0:
        opt["reload"] = {"first_note_at_zero": draw(st.sampled_from([True, True, False])), "pedal_threshold": draw(st.sampled_from([64, 0, 1, 100, 127]))}
    if api == "from_alignment":
        if draw(st.booleans()):
            opt["tempo_indication"] = draw(st.sampled_from(["Allegro", "Lento ma non troppo", "Andante con moto", "q"]))
        if sounding and draw(st.booleans()):
            ids = [hid for (_, _, _, hid, _) in sounding]
            opt["diff_notes"] = sorted(set(ids[draw(st.integers(0, len(ids) - 1))] for _ in range(draw(st.integers(1, 3)))))
    return opt


def build(spec):
    """Live objects of a case: (part, score_data, ppart, performance_data, alignment)."""
    import partitura.score as S
    from partitura.performance import Performance, PerformedPart

    from pbt.gen.build import build_part

    ps = spec["part"]
    part, objs = build_part(ps)
    for n in ps["notes"]:
        if n.get("fingering"):
            objs[n["id"]].technical = [S.Fingering(int(n["fingering"]))]
    notes = [
        dict(id=n["id"], midi_pitch=int(n["pitch"]), note_on=float(n["on"]), note_off=float(n["off"]),
             velocity=int(n["vel"]), track=int(n["track"]), channel=int(n["channel"]))
        for n in spec["pnotes"]
    ]
    if spec.get("bare_controls", False):
        controls = [dict(number=int(c["number"]), time=float(c["time"]), value=int(c["value"])) for c in spec["controls"]]
    else:
        controls = [dict(number=int(c["number"]), time=float(c["time"]), value=int(c["value"]), track=0, channel=1) for c in spec["controls"]]
    kw = {}
    if spec.get("pp_clock", "same") == "same":
        kw = dict(ppq=int(spec["ppq"]), mpq=int(spec["mpq"]))
    if spec.get("pp_build", "dict") == "note_array" and notes:
        # the route of decode_performance: numpy scalars, float32 seconds, numpy strings as ids
        import numpy as np

        fields = [("onset_sec", "f4"), ("duration_sec", "f4"), ("pitch", "i4"), ("velocity", "i4"), ("track", "i4"), ("channel", "i4"), ("id", "U256")]
        arr = np.array([(n["note_on"], n["note_off"] - n["note_on"], n["midi_pitch"], n["velocity"], n["track"], n["channel"], n["id"]) for n in notes], dtype=fields)
        ppart = PerformedPart.from_note_array(arr, id="PP")
        ppart.controls = controls
        for k_, v_ in kw.items():
            setattr(ppart, k_, v_)
    else:
        ppart = PerformedPart(notes=notes, id="PP", controls=controls, **kw)
    alignment = [dict(a) for a in spec["alignment"]]
    for a in alignment:
        if isinstance(a.get("type"), list):
            a["type"] = list(a["type"])
    sa = spec.get("score_as", "part")
    if spec.get("score_in_group", False):
        group = S.PartGroup(group_symbol="bracket", group_name="G")
        group.children = [part]
        part.parent = group
        # a PartGroup alone, or as the only top-level element of a Score / list
        score_data = group if sa == "part" else (S.Score(partlist=[group], id="s") if sa == "score" else group)
    elif sa == "score":
        score_data = S.Score(partlist=[part], id="s")
    elif sa == "list":
        score_data = [part]
    else:
        score_data = part
    pa = spec.get("perf_as", "ppart")
    if pa == "performance":
        perf_data = Performance(id="perf", performedparts=[ppart])
    elif pa == "list":
        perf_data = [ppart]
    else:
        perf_data = ppart
    return part, score_data, ppart, perf_data, alignment
