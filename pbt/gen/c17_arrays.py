"""C17 generators: note-array specs (score / performance units) and small MIDI file specs.

A *rows spec* is a plain JSON value::

    {"unit": "beat"|"quarter"|"div"|"sec"|"tick",   # which onset_*/duration_* columns the array has
     "extra": "none"|"id"|"full",                   # only the required columns / + id / all columns note_array() has
     "time": "grid"|"float",
     "den": d,                                      # grid: onset = k/d, duration = j/d (float units); ints for div/tick
     "rows": [[onset, duration, pitch], ...]}       # ints (grid steps) or float32-exact floats, rows in any order

Everything is constructed (no filtering).  Arrays are rebuilt from the spec by
:func:`build_array`; nothing live is stored in a spec.
"""

import os

import numpy as np
from hypothesis import strategies as st

INT_UNITS = ("div", "tick")
SCORE_UNITS = ("beat", "quarter", "div")
PERF_UNITS = ("sec", "tick")

MAJOR = (0, 2, 4, 5, 7, 9, 11)
HARM_MINOR = (0, 2, 3, 5, 7, 8, 11)
PENTA = (0, 2, 4, 7, 9)
TRIAD = (0, 4, 7)
SCALES = [MAJOR, HARM_MINOR, PENTA, TRIAD]


def max_rows(tier):
    return 60 if tier == "quick" else 300


@st.composite
def rows_spec(draw, tier, lo, hi, zero="some", units=None, maxn=None, sizes=None):
    """Strategy for a rows spec with pitches in lo..hi.

    zero: "never" | "some" (a third of the cases may contain zero-length notes) | "often"
    """
    cap = maxn or max_rows(tier)
    size_class = draw(st.sampled_from(sizes or [3, 6, 6, 12, 12, 24, 24, cap, cap]))
    size_class = min(size_class, cap)
    # sizes are spread over the upper half of the class so that one-row arrays stay rare
    n = draw(st.integers(max(1, size_class // 2), size_class)) if draw(st.integers(0, 3)) else draw(st.integers(1, size_class))
    # hand the notes over as a Part / PerformedPart (documented input types): the case is then built to fit into one
    container = draw(st.sampled_from(["array", "array", "array", "object"]))
    as_object = container == "object"
    unit = draw(st.sampled_from(units or ["beat", "beat", "beat", "sec", "sec", "quarter", "div", "tick"]))
    if as_object and unit == "tick":
        unit = "sec"
    # "mixed": score columns plus performance columns that say something else (documented: score preferred)
    extra = draw(st.sampled_from(["none", "id", "id", "full"] + (["mixed", "mixed"] if unit in SCORE_UNITS else [])))
    kind = "grid" if unit in INT_UNITS else draw(st.sampled_from(["grid", "grid", "grid", "float"]))
    if as_object and unit in SCORE_UNITS:
        kind = "grid"  # a score part lives on a grid of divisions
    if zero == "never":
        allow_zero = False
    elif zero == "often":
        allow_zero = draw(st.booleans())
    else:
        allow_zero = draw(st.integers(0, 2)) == 0
    if as_object and unit in SCORE_UNITS:
        allow_zero = False  # no zero-length notes in a score part
    # pitch material
    style = draw(st.sampled_from(["uniform", "scale", "scale", "narrow", "low-edge"]))
    first_pitch = None
    if style == "low-edge":
        # the bottom of the range in a flat-side pentatonic context, opened by the note a semitone below the bottom pitch's
        # class: the contexts in which ps13 gives the lowest pitch an extreme spelling (A0 as G##: morphetic pitch -1)
        rel = draw(st.sampled_from([3, 3, 3, 3] + list(range(12))))
        tonic = (lo + rel) % 12
        pool = [p for p in range(lo, min(hi, lo + 37) + 1) if (p - tonic) % 12 in (0, 3, 5, 7, 10)] or [lo]
        first_pitch = lo + ((tonic + 8 - lo) % 12)
        if first_pitch > hi:
            first_pitch = lo
        pitch = st.one_of(st.just(lo), st.sampled_from(pool), st.sampled_from(pool), st.sampled_from(pool), st.sampled_from(pool))
    elif style == "scale":
        tonic = draw(st.integers(0, 11))
        scale = draw(st.sampled_from(SCALES))
        pool = [p for p in range(lo, hi + 1) if (p - tonic) % 12 in scale]
        centre = draw(st.integers(lo, hi))
        width = draw(st.sampled_from([7, 12, 24, 100]))
        near = [p for p in pool if abs(p - centre) <= width] or pool
        pitch = st.sampled_from(near)
    elif style == "narrow":
        centre = draw(st.integers(lo, hi))
        pitch = st.integers(max(lo, centre - 6), min(hi, centre + 6))
    else:
        pitch = st.integers(lo, hi)
    if kind == "grid":
        den = 1 if unit in INT_UNITS else draw(st.sampled_from([1, 2, 3, 4, 4, 8, 12, 16]))
        mult = draw(st.sampled_from([1, 1, 2, 4, 120])) if unit in INT_UNITS else 1
        # a small onset span makes simultaneous and overlapping notes frequent
        span = draw(st.sampled_from([1, 2, max(2, n // 2), max(2, n), 2 * n + 2]))
        shift = draw(st.sampled_from([0, 0, 0, 0, -span, 7])) if unit in ("beat", "quarter") else 0
        if as_object:
            shift = max(shift, 0)  # parts start at or after 0
        durs = [1, 1, 2, 2, 3, 4, 4, 6, 8, 16, 5, 7]
        if allow_zero:
            durs = durs + [0, 0, 0, 0]
        row = st.tuples(
            st.integers(0, span).map(lambda k: (k + shift) * mult),
            st.sampled_from(durs).map(lambda k: k * mult),
            pitch,
        )
    else:
        den = 1
        top = draw(st.sampled_from([1.0, 10.0, 100.0]))
        onset = st.floats(0.0, top, width=32, allow_nan=False, allow_infinity=False)
        dur_pos = st.floats(0.015625, 8.0, width=32, allow_nan=False, allow_infinity=False)
        dur = st.one_of(dur_pos, dur_pos, st.just(0.0)) if allow_zero else dur_pos
        row = st.tuples(onset, dur, pitch)
    rows = draw(st.lists(row, min_size=n, max_size=n))
    order = draw(st.sampled_from(["any", "any", "onset-sorted"]))
    rows = [list(r) for r in rows]
    if first_pitch is not None:
        min(rows, key=lambda r: (r[0], r[2]))[2] = first_pitch
    if order == "onset-sorted":
        rows.sort(key=lambda r: (r[0], r[2]))
    return {
        "unit": unit,
        "extra": extra,
        "time": kind,
        "den": den,
        "rows": rows,
        # 8 byte columns (what the MIDI importer builds) instead of the 4 byte ones of note_array()
        "wide": draw(st.integers(0, 3)) == 0,
        # hand the notes over as a Part / PerformedPart (documented input types) where they fit into one
        "container": container,
    }


def times(spec):
    """Onsets and durations as python numbers (ints for div/tick, floats otherwise)."""
    rows = spec["rows"]
    if spec["unit"] in INT_UNITS:
        return [int(r[0]) for r in rows], [int(r[1]) for r in rows]
    if spec["time"] == "grid":
        d = float(spec["den"])
        return [r[0] / d for r in rows], [r[1] / d for r in rows]
    return [float(r[0]) for r in rows], [float(r[1]) for r in rows]


def time_fields(spec):
    u = spec["unit"]
    return "onset_" + u, "duration_" + u


def build_array(spec, pitch_shift=0, dur_scale=None, order=None):
    """Structured note array for a rows spec.

    pitch_shift is added to every pitch, dur_scale multiplies every duration
    (before the value is stored in the column's dtype), order permutes the rows.
    """
    unit = spec["unit"]
    on, du = times(spec)
    n = len(on)
    pitch = [int(r[2]) + pitch_shift for r in spec["rows"]]
    isint = unit in INT_UNITS
    wide = bool(spec.get("wide"))
    tdt = ("i8" if wide else "i4") if isint else ("f8" if wide else "f4")
    pdt = "i8" if wide else "i4"
    of, df = time_fields(spec)
    if dur_scale is not None:
        if isint:
            du = [int(d * dur_scale) for d in du]
        else:
            # in the column's own precision, so that a power of two scales every stored value exactly
            du = list(np.asarray(du, dtype=tdt) * np.dtype(tdt).type(dur_scale))
    extra = spec.get("extra", "none")
    if extra == "none":
        dtype = [(of, tdt), (df, tdt), ("pitch", pdt)]
    elif extra == "id":
        dtype = [(of, tdt), (df, tdt), ("pitch", pdt), ("id", "U256")]
    elif extra == "mixed":
        dtype = [("onset_sec", "f4"), ("duration_sec", "f4"), ("onset_tick", "i4"), ("duration_tick", "i4"),
                 (of, tdt), (df, tdt), ("pitch", pdt), ("id", "U256")]
    elif unit in SCORE_UNITS:
        dtype = [
            ("onset_beat", "f4"), ("duration_beat", "f4"), ("onset_quarter", "f4"), ("duration_quarter", "f4"),
            ("onset_div", "i4"), ("duration_div", "i4"), ("pitch", "i4"), ("voice", "i4"), ("id", "U256"),
        ]
    else:
        dtype = [
            ("onset_sec", "f4"), ("duration_sec", "f4"), ("onset_tick", "i4"), ("duration_tick", "i4"),
            ("pitch", "i4"), ("velocity", "i4"), ("track", "i4"), ("channel", "i4"), ("id", "U256"),
        ]
    arr = np.zeros(n, dtype=dtype)
    if extra == "full":
        # the other time columns carry plausible (consistent) values; only the
        # preferred unit's columns are authoritative for the spec
        for name in arr.dtype.names:
            if name.startswith("onset_"):
                arr[name] = np.asarray(on) * (480 if name.endswith(("div", "tick")) and not isint else 1)
            elif name.startswith("duration_"):
                arr[name] = np.asarray(du) * (480 if name.endswith(("div", "tick")) and not isint else 1)
        if "velocity" in arr.dtype.names:
            arr["velocity"] = 64
        if "voice" in arr.dtype.names:
            arr["voice"] = 1
    if extra == "mixed":
        # performance columns that contradict the score columns: other order of onsets, other durations
        arr["onset_sec"] = [float(n - i) * 0.5 for i in range(n)]
        arr["duration_sec"] = [0.25 + (i * 7 % 5) for i in range(n)]
        arr["onset_tick"] = [(n - i) * 240 for i in range(n)]
        arr["duration_tick"] = [120 + 480 * (i * 7 % 5) for i in range(n)]
    arr[of] = on
    arr[df] = du
    arr["pitch"] = pitch
    if "id" in arr.dtype.names:
        arr["id"] = ["n%d" % i for i in range(n)]
    if order is not None:
        arr = arr[np.asarray(order, dtype=int)]
    return arr


PC_SPELL = [("C", 0), ("C", 1), ("D", 0), ("E", -1), ("E", 0), ("F", 0), ("F", 1), ("G", 0), ("A", -1), ("A", 0), ("B", -1), ("B", 0)]


def object_input(spec):
    """(object, effective rows spec) for a rows spec that fits into a PerformedPart (seconds, onsets >= 0) or a
    Part (score unit on a grid, onsets >= 0, durations > 0); None otherwise.  The effective spec describes the
    columns the analysis functions will read from the object's own note array (seconds / beats)."""
    import partitura.performance as PF
    import partitura.score as SC

    unit = spec["unit"]
    on, du = times(spec)
    if not on or min(on) < 0:
        return None
    if unit == "sec":
        notes = [
            dict(id="n%d" % i, midi_pitch=int(r[2]), note_on=float(a), note_off=float(a) + float(d), velocity=64, channel=1, track=0)
            for i, (r, a, d) in enumerate(zip(spec["rows"], on, du))
        ]
        return PF.PerformedPart(notes), dict(spec, extra="full", wide=False), "PerformedPart"
    if unit not in SCORE_UNITS or spec["time"] != "grid" or min(du) <= 0:
        return None
    qd = 4 if unit == "div" else int(spec["den"])
    part = SC.Part("P0", quarter_duration=qd)
    for i, r in enumerate(spec["rows"]):
        step, alter = PC_SPELL[int(r[2]) % 12]
        part.add(SC.Note(step=step, octave=int(r[2]) // 12 - 1, alter=alter, id="n%d" % i, voice=1), int(r[0]), int(r[0]) + int(r[1]))
    # without a time signature a beat is a quarter: onset_beat = k / qd
    return part, dict(spec, unit="beat", time="grid", den=qd, extra="full", wide=False), "Part"


def permutation(keys, n):
    """A permutation of range(n) determined by a list of integer sort keys."""
    ks = [(keys[i] if i < len(keys) else 0) for i in range(n)]
    return sorted(range(n), key=lambda i: (ks[i], -i))


# ---------------------------------------------------------------------------
# MIDI file specs for load_score_midi
# ---------------------------------------------------------------------------


def normalise_midi_notes(notes):
    """Drop notes that would overlap an earlier note of the same (track, channel, pitch).

    A MIDI stream cannot express two sounding notes of one pitch on one channel;
    the property's quantifier is "MIDI files built from such arrays", so the file
    content is made expressible by construction.
    """
    keep, last = [], {}
    for note in sorted([list(map(int, x)) for x in notes], key=lambda x: (x[0], x[0] + x[1], x[2], x[3], x[4])):
        on, du, p, trk, ch = note
        k = (trk, ch, p)
        if k in last and on < last[k]:
            continue
        last[k] = on + du
        keep.append(note)
    return keep


@st.composite
def midi_spec(draw, tier):
    cap = 24 if tier == "quick" else 80
    size_class = draw(st.sampled_from([2, 6, 12, 16, cap, cap]))
    n = draw(st.integers(max(1, size_class // 2), size_class))
    ppq = draw(st.sampled_from([4, 12, 24, 96, 480, 480]))
    unit = draw(st.sampled_from([u for u in (ppq // 4, ppq // 3, ppq // 2, ppq) if u >= 1 and ppq % u == 0]))
    format0 = draw(st.integers(0, 4)) == 0  # a single-track file in MIDI format 0
    ntracks = 1 if format0 else draw(st.sampled_from([1, 1, 2, 3]))
    nch = draw(st.sampled_from([1, 1, 2, 3]))
    allow_zero = draw(st.integers(0, 2)) == 0
    span = draw(st.sampled_from([1, 3, max(2, n), 2 * n + 2]))
    durs = [1, 1, 2, 2, 3, 4, 4, 6, 8] + ([0, 0, 0] if allow_zero else [])
    # octave doublings (the same pitch class on several channels at once) are typical of real files
    if draw(st.integers(0, 2)) == 0:
        base = draw(st.integers(21, 32))
        pitch = st.integers(0, 6).map(lambda k: base + 12 * k)
    else:
        pitch = st.integers(21, 108)
    note = st.tuples(
        st.integers(0, span).map(lambda k: k * unit),
        st.sampled_from(durs).map(lambda k: k * unit),
        pitch,
        st.integers(0, ntracks - 1),
        st.integers(0, nch - 1),
    )
    notes = normalise_midi_notes(draw(st.lists(note, min_size=n, max_size=n)))
    ts = draw(st.sampled_from(["track0", "alltracks", "none"] if format0 else ["global", "global", "track0", "alltracks", "none"]))
    sig = draw(st.sampled_from([[4, 4], [3, 4], [6, 8], [2, 2], [5, 4]]))
    return {
        "ppq": ppq,
        "ntracks": ntracks,
        "notes": notes,
        "timesig": ts,
        "sig": sig,
        "mode": draw(st.integers(0, 5)),
        "keysig": draw(st.sampled_from([None, None, "C", "F#m", "Eb"])),
        "tempo": None if format0 else draw(st.sampled_from([None, 500000, 400000])),
        # file shapes of real MIDI files: a note ended by note_on with velocity 0; other messages with their own
        # delta times between the notes; format 0 where there is a single track
        "off_as_on0": draw(st.sampled_from([0, 0, 1, 2])),  # 0 never, 1 always, 2 every other note
        "other_messages": draw(st.integers(0, 2)) == 0,
        "format0": format0,
        # how the file is handed over and which documented options accompany it
        "handover": draw(st.sampled_from(["str", "str", "pathlib", "midofile", "midofile-in-memory"])),
        "omit_defaults": draw(st.booleans()),
        "quantization": draw(st.sampled_from([None, None, "grid", 1])),
        "assign_note_ids": draw(st.sampled_from([True, True, False])),
    }


def single_track_file(spec):
    """True when the file of this spec consists of exactly one track (then format 0 can hold it)."""
    meta = spec["timesig"] == "global" or spec.get("tempo") or (spec.get("keysig") and spec["timesig"] == "global")
    return int(spec["ntracks"]) == 1 and not meta


def write_midi(spec, path, return_object=False):
    """Write the MIDI file described by a midi spec (type 1, one meta track when timesig == 'global')."""
    import mido

    fmt = 0 if (spec.get("format0") and single_track_file(spec)) else 1
    mid = mido.MidiFile(type=fmt, ticks_per_beat=int(spec["ppq"]))
    num, den = spec["sig"]
    if spec["timesig"] == "global" or spec.get("tempo") or (spec.get("keysig") and spec["timesig"] == "global"):
        tr = mido.MidiTrack()
        if spec["timesig"] == "global":
            tr.append(mido.MetaMessage("time_signature", numerator=num, denominator=den, time=0))
            if spec.get("keysig"):
                tr.append(mido.MetaMessage("key_signature", key=spec["keysig"], time=0))
        if spec.get("tempo"):
            tr.append(mido.MetaMessage("set_tempo", tempo=int(spec["tempo"]), time=0))
        mid.tracks.append(tr)
    for t in range(int(spec["ntracks"])):
        ev = []
        for (on, du, p, trk, ch) in spec["notes"]:
            if trk != t:
                continue
            if du == 0:
                # a zero-length note: on immediately followed by its off
                ev.append((on, 1, len(ev), "on", p, ch))
                ev.append((on, 1, len(ev), "off", p, ch))
            else:
                ev.append((on, 2, len(ev), "on", p, ch))
                ev.append((on + du, 0, len(ev), "off", p, ch))
        # at one tick: offs of sounding notes, then zero-length pairs, then new onsets
        ev.sort(key=lambda e: (e[0], e[1], e[2]))
        tr = mido.MidiTrack()
        if spec["timesig"] == "alltracks" or (spec["timesig"] == "track0" and t == 0):
            tr.append(mido.MetaMessage("time_signature", numerator=num, denominator=den, time=0))
        if spec.get("keysig") and spec["timesig"] != "global":
            tr.append(mido.MetaMessage("key_signature", key=spec["keysig"], time=0))
        now = 0
        style = int(spec.get("off_as_on0") or 0)
        others = bool(spec.get("other_messages"))
        if others:
            tr.append(mido.MetaMessage("track_name", name="track %d" % t, time=0))
            tr.append(mido.Message("program_change", program=t, channel=0, time=0))
        k = 0
        for (tt, _, _, kind, p, ch) in ev:
            delta = tt - now
            if others and delta >= 2:
                # messages the importer does not use, each carrying part of the waiting time
                a = delta // 2
                tr.append(mido.Message("control_change", control=64, value=(k * 37) % 128, channel=ch, time=a))
                if k % 3 == 0:
                    tr.append(mido.Message("pitchwheel", pitch=(k * 211) % 8000 - 4000, channel=ch, time=0))
                if k % 4 == 1:
                    tr.append(mido.MetaMessage("text", text="x", time=0))
                delta -= a
            if kind == "on":
                tr.append(mido.Message("note_on", note=p, velocity=64, channel=ch, time=delta))
            elif style == 1 or (style == 2 and k % 2 == 0):
                tr.append(mido.Message("note_on", note=p, velocity=0, channel=ch, time=delta))
            else:
                tr.append(mido.Message("note_off", note=p, velocity=0, channel=ch, time=delta))
            now = tt
            k += 1
        if others:
            tr.append(mido.MetaMessage("end_of_track", time=3))
        mid.tracks.append(tr)
    if return_object:
        return mid
    mid.save(path)
    return path
