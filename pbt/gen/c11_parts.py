"""Generator and exact reference model for C11 (add_measures / tie_notes / ...).

Unlike ``scorespec.part_spec`` (which builds bar by bar from notated values) this
generator places everything at *arbitrary integer positions*: time signatures on and
off the bar grid, existing measures anywhere (adjacent, with gaps, around a signature
change), notes with arbitrary onsets and durations.  The spec it emits has the fields
``build.build_part`` understands, plus ``beat_mode``, ``dangling`` and ``ops``.

``Model`` is the independent reference: interval arithmetic on ints and Fractions, no
partitura code.
"""

from fractions import Fraction
from math import gcd

from hypothesis import strategies as st

TIME_SIGS = [(4, 4), (3, 4), (2, 4), (2, 2), (6, 8), (9, 8), (12, 8), (6, 4), (5, 8), (7, 8), (5, 4), (3, 8), (3, 2), (4, 8)]
DIVS = [1, 2, 3, 4, 5, 6, 7, 8, 10, 12, 16, 24, 48, 96, 480]
STEPS = "CDEFGAB"

# exact values (in quarters) of everything partitura's tables can name
TYPE_Q = {
    "long": Fraction(16),
    "breve": Fraction(8),
    "whole": Fraction(4),
    "half": Fraction(2),
    "h": Fraction(2),
    "quarter": Fraction(1),
    "q": Fraction(1),
    "eighth": Fraction(1, 2),
    "e": Fraction(1, 2),
    "16th": Fraction(1, 4),
    "32nd": Fraction(1, 8),
    "64th": Fraction(1, 16),
    "128th": Fraction(1, 32),
    "256th": Fraction(1, 64),
}
FULL_TYPES = ["long", "breve", "whole", "half", "quarter", "eighth", "16th", "32nd", "64th", "128th", "256th"]


def dotmul(d):
    return 2 - Fraction(1, 2 ** d)


# every plain notated value type x 0..3 dots -> (type, dots)
TABULATED = {}
for _ty in FULL_TYPES:
    for _d in range(4):
        TABULATED.setdefault(TYPE_Q[_ty] * dotmul(_d), (_ty, _d))


def sym_value(sd):
    """Exact value in quarters of a symbolic duration dict (raises KeyError on unknown type)."""
    v = TYPE_Q[sd["type"]] * dotmul(int(sd.get("dots", 0) or 0))
    a, n = sd.get("actual_notes"), sd.get("normal_notes")
    if a or n:
        v = v * Fraction(int(n or 1), int(a or 1))
    return v


def bar_quarters(ts):
    return Fraction(ts[0] * 4, ts[1])


def _lcm(a, b):
    return a * b // gcd(a, b)


# --------------------------------------------------------------------------
# reference model
# --------------------------------------------------------------------------
class Model(object):
    def __init__(self, spec):
        self.spec = spec
        self.divs = sorted((int(t), int(d)) for t, d in spec["divs"])
        self.timesigs = sorted((int(t), int(b), int(bt)) for t, b, bt in spec["timesigs"])
        self.existing = sorted((int(m[0]), int(m[1])) for m in spec["measures"])
        starts, ends = [], []
        for (t, _, _) in self.timesigs:
            starts.append(t)
        for (s, e) in self.existing:
            starts.append(s)
            ends.append(e)
        for n in spec["notes"]:
            starts.append(n["t"])
            ends.append(n["t"] + n["dur"])
        for (t, _) in self.divs[1:]:
            pass  # a division change creates no time point
        for dg in spec.get("dangling", []):
            starts.append(dg["t"])
        self.first = min(starts + ends)
        self.last = max(starts + ends)

    def divs_at(self, t):
        cur = self.divs[0][1]
        for (tt, d) in self.divs:
            if tt <= t:
                cur = d
        return cur

    def ts_at(self, t):
        cur = None
        for (tt, b, bt) in self.timesigs:
            if tt <= t:
                cur = (b, bt)
        return cur

    def advance(self, a, quarters):
        """Exact timeline position reached from integer position a after `quarters` quarters."""
        pos = Fraction(a)
        rem = Fraction(quarters)
        changes = [t for (t, _) in self.divs if t > a]
        for c in changes + [None]:
            d = self.divs_at(int(pos)) if pos.denominator == 1 else None
            if d is None:  # cannot happen: pos only becomes fractional at the end
                raise AssertionError
            if c is None or pos + rem * d <= c:
                return pos + rem * d
            rem -= (Fraction(c) - pos) / d
            pos = Fraction(c)
        return pos

    def expected_new_measures(self):
        """[(start, end, reason)] the bars add_measures has to create; None where a bar end is not integral.

        reason: 'full' | 'ts' | 'existing' | 'end' (what delimits the bar), 'pre-ts' for
        bars before the first signature (length not judged).
        """
        out = []
        pos = self.first
        ex = self.existing
        ts_times = [t for (t, _, _) in self.timesigs]
        guard = 0
        while pos < self.last:
            guard += 1
            if guard > 100000:
                raise AssertionError("model does not terminate")
            inside = [m for m in ex if m[0] <= pos < m[1]]
            if inside:
                pos = inside[0][1]
                continue
            cands = [(self.last, "end")]
            nxt_ts = [t for t in ts_times if t > pos]
            if nxt_ts:
                cands.append((min(nxt_ts), "ts"))
            nxt_ex = [m[0] for m in ex if m[0] > pos]
            if nxt_ex:
                cands.append((min(nxt_ex), "existing"))
            ts = self.ts_at(pos)
            if ts is None:
                b, why = min(cands)
                out.append((pos, b, "pre-ts"))
                pos = b
                continue
            full = self.advance(pos, bar_quarters(ts))
            b, why = min(cands)
            if full <= b:
                if full.denominator != 1:
                    out.append((pos, None, "non-integral"))
                    return out
                b, why = int(full), "full"
            out.append((pos, b, why))
            pos = b
        return out


def uncovered(intervals, lo, hi):
    """Sub-intervals of [lo, hi) not covered by the given [s, e) intervals."""
    gaps = []
    pos = lo
    for (s, e) in sorted(intervals):
        if e <= pos:
            continue
        if s >= hi:
            break
        if s > pos:
            gaps.append((pos, min(s, hi)))
        pos = max(pos, e)
    if pos < hi:
        gaps.append((pos, hi))
    return gaps


# --------------------------------------------------------------------------
# strategies
# --------------------------------------------------------------------------
@st.composite
def skeleton(draw, any_divs):
    """Divisions, signatures, nominal end T."""
    nts = draw(st.sampled_from([1, 1, 2, 2, 2, 3]))
    tss = [draw(st.sampled_from(TIME_SIGS)) for _ in range(nts)]
    need = 1
    for ts in tss:
        need = _lcm(need, bar_quarters(ts).denominator)
    if any_divs and draw(st.integers(0, 2)) == 0:
        base = draw(st.integers(1, 120))
    else:
        base = draw(st.sampled_from(DIVS))
    d = base * need if base % need else base
    L = [int(bar_quarters(ts) * d) for ts in tss]
    late = draw(st.integers(0, 11)) == 0
    pos = draw(st.integers(1, L[0])) if late else 0
    timesigs = [[pos, tss[0][0], tss[0][1]]]
    for k in range(1, nts):
        nb = draw(st.integers(0, 3))
        off = 0
        if L[k - 1] > 1 and draw(st.integers(0, 4)) < 2:
            off = draw(st.integers(1, L[k - 1] - 1))
        step = nb * L[k - 1] + off
        if step == 0:
            step = L[k - 1]
        pos += step
        timesigs.append([pos, tss[k][0], tss[k][1]])
    nb = draw(st.integers(0, 4))
    off = 0
    if L[-1] > 1 and draw(st.integers(0, 4)) < 2:
        off = draw(st.integers(1, L[-1] - 1))
    step = nb * L[-1] + off
    if step == 0 and not (nts >= 2 and draw(st.integers(0, 5)) == 0):
        step = L[-1]
    T = pos + step
    divs = [[0, d]]
    on_bar = False
    if T >= 2 and draw(st.integers(0, 3)) == 0:
        base2 = draw(st.sampled_from(DIVS))
        d2 = base2 * need if base2 % need else base2
        if d2 != d:
            c = draw(st.integers(1, T - 1))
            # half of the time the change stands on a bar line of the first signature (where a MusicXML file states new
            # divisions); notes may then be held across it (see _notes)
            hi = (timesigs[1][0] if nts > 1 else T) - 1
            if not late and hi >= L[0] and draw(st.booleans()):
                c = L[0] * draw(st.integers(1, hi // L[0]))
                on_bar = True
            divs.append([c, d2])
    return {"divs": divs, "timesigs": timesigs, "T": T, "late": late, "L": L, "divs_on_bar": on_bar}


def _clip_to_division_segment(divs, t, dur):
    for (c, _) in divs[1:]:
        if t < c < t + dur:
            return c - t
    return dur


@st.composite
def _duration(draw, L, d):
    kind = draw(st.sampled_from(["small", "bar", "long", "tab", "tuplet", "one"]))
    if kind == "one":
        return 1
    if kind == "small":
        return draw(st.integers(1, max(1, L // 2)))
    if kind == "bar":
        return draw(st.integers(1, 2 * L))
    if kind == "long":
        return draw(st.integers(L, 4 * L))
    if kind == "tab":
        ty = draw(st.sampled_from(["whole", "half", "quarter", "eighth", "16th", "32nd"]))
        v = TYPE_Q[ty] * dotmul(draw(st.integers(0, 2))) * d
        return max(1, int(v))
    k = draw(st.sampled_from([3, 3, 5, 6, 7]))
    v = TYPE_Q[draw(st.sampled_from(["half", "quarter", "eighth"]))] * 2 * d / k
    return max(1, int(v))


@st.composite
def _notes(draw, sk, nmax, fill_rests_ok, with_grace, with_rests, with_unpitched=False):
    T = sk["T"]
    divs = sk["divs"]
    L0 = sk["L"][0]
    out = []
    counter = [0]

    def nid():
        counter[0] += 1
        return "n%d" % counter[0]

    n = draw(st.integers(0 if nmax <= 3 else 1, nmax))
    nvoices = draw(st.integers(1, 2))
    nstaves = draw(st.integers(1, 2))
    for i in range(n):
        t = draw(st.integers(0, max(0, T - 1)))
        if i == 0 and draw(st.integers(0, 2)) > 0:
            t = 0
        d_here = [dd for (c, dd) in divs if c <= t][-1]
        dur = draw(_duration(draw(st.sampled_from(sk["L"])), d_here))
        if not (sk.get("divs_on_bar") and draw(st.booleans())):
            # (a note held across a division change that stands on a bar line keeps its length: numerically it is in mixed
            # units, which is what tie_notes is written for - each piece is estimated with the divisions at its own start)
            dur = _clip_to_division_segment(divs, t, dur)
        voice = draw(st.integers(1, nvoices))
        staff = draw(st.integers(1, nstaves))
        if not fill_rests_ok and draw(st.integers(0, 7)) == 0:
            voice = None
        if not fill_rests_ok and draw(st.integers(0, 7)) == 0:
            staff = None
        kind = "note"
        if with_rests and draw(st.integers(0, 6)) == 0:
            kind = "rest"
        elif with_unpitched and draw(st.integers(0, 9)) == 0:
            # an UnpitchedNote: a GenericNote that is not a Note (tie_notes and the note array pass it by)
            kind = "unpitched"
        base = {"kind": kind, "voice": voice, "staff": staff}
        if kind == "unpitched":
            base.update(step=draw(st.sampled_from(STEPS)), octave=draw(st.integers(2, 6)))
        if kind == "note":
            base.update(step=draw(st.sampled_from(STEPS)), alter=draw(st.sampled_from([-1, 0, 0, 0, 1])), octave=draw(st.integers(2, 6)))
        pieces = [(t, dur)]
        if kind == "note" and dur >= 2 and draw(st.integers(0, 5)) == 0:
            c = draw(st.integers(1, dur - 1))
            pieces = [(t, c), (t + c, dur - c)]
            if dur - c >= 2 and draw(st.integers(0, 3)) == 0:
                c2 = draw(st.integers(1, dur - c - 1))
                pieces = [(t, c), (t + c, c2), (t + c + c2, dur - c - c2)]
        chain = []
        for (pt, pd) in pieces:
            nn = dict(base)
            nn.update(id=nid(), t=pt, dur=pd, sym=None)
            q = Fraction(pd, d_here)
            straddles = any(pt < c < pt + pd for (c, _) in divs[1:])
            if not straddles and q in TABULATED and draw(st.integers(0, 2)) == 0:
                ty, dots = TABULATED[q]
                nn["sym"] = {"type": ty, "dots": dots} if dots or draw(st.booleans()) else {"type": ty}
            chain.append(nn)
        for a, b in zip(chain, chain[1:]):
            a["tie_next"] = b["id"]
            b["tie_prev"] = a["id"]
        if kind == "note" and with_grace and draw(st.integers(0, 7)) == 0:
            g = {"kind": "grace", "id": nid(), "t": t, "dur": 0, "step": draw(st.sampled_from(STEPS)), "alter": 0, "octave": draw(st.integers(2, 6)),
                 "voice": voice, "staff": staff, "sym": {"type": "eighth"}, "grace_type": "acciaccatura", "grace_next": chain[0]["id"]}
            out.append(g)
        out.extend(chain)
    if with_grace and draw(st.integers(0, 9)) == 0:
        # an orphan grace note (no main note): sanitize_part documents that it attaches or removes it
        out.append({"kind": "grace", "id": nid(), "t": draw(st.integers(0, max(0, T - 1))), "dur": 0, "step": "C", "alter": 0, "octave": 5,
                    "voice": 1, "staff": 1, "sym": {"type": "eighth"}, "grace_type": "grace", "orphan": True})
    if sk.get("divs_on_bar") and draw(st.integers(0, 3)) > 0:
        # a note held across the bar line on which the divisions change
        c = divs[1][0]
        t = draw(st.integers(max(0, c - L0), c - 1))
        end = draw(st.integers(c + 1, max(c + 1, min(T, c + 2 * max(sk["L"])))))
        out.append({"kind": "note", "id": nid(), "t": t, "dur": end - t, "sym": None, "voice": draw(st.integers(1, nvoices)), "staff": draw(st.integers(1, nstaves)),
                    "step": draw(st.sampled_from(STEPS)), "alter": 0, "octave": draw(st.integers(2, 6))})
    # an anchor so that the timeline usually ends at the nominal end T
    if T > 0 and draw(st.integers(0, 3)) > 0:
        lo = max([0] + [c for (c, _) in divs[1:] if c < T])
        t = draw(st.integers(lo, T - 1))
        out.append({"kind": "note", "id": nid(), "t": t, "dur": T - t, "sym": None, "voice": 1, "staff": 1,
                    "step": draw(st.sampled_from(STEPS)), "alter": 0, "octave": draw(st.integers(2, 6))})
    return out


@st.composite
def _existing_measures(draw, spec, allow_full):
    """Existing measures: none / some (adjacent or with gaps, on or off the grid) / around a
    signature change / a full tiling."""
    mod = Model(dict(spec, measures=[]))
    last = mod.last
    first = mod.first
    if last <= first:
        return [], "none"
    grid = []
    for (a, b, why) in mod.expected_new_measures():
        if b is None:
            break
        grid.extend([a, b])
    grid = sorted(set(grid)) or [first, last]
    modes = ["none", "none", "none", "some", "some", "some", "some"]
    inner_ts = [t for (t, _, _) in mod.timesigs[1:] if first < t < last]
    if inner_ts:
        modes += ["around-ts"]
    if allow_full:
        modes += ["full", "full", "full-irregular"]
    mode = draw(st.sampled_from(modes))
    if mode == "none":
        return [], mode
    point = st.one_of(st.sampled_from(grid), st.integers(first, last))
    if mode == "full":
        pts = grid if grid[-1] >= last else grid + [last]
        return [[a, b] for a, b in zip(pts, pts[1:])], mode
    if mode == "full-irregular":
        pts = sorted(set([first, last] + [draw(point) for _ in range(draw(st.integers(0, 5)))]))
        return [[a, b] for a, b in zip(pts, pts[1:])], mode
    pts = set(draw(point) for _ in range(draw(st.integers(2, 7))))
    if draw(st.integers(0, 2)) > 0:
        # usually no existing measure spans a signature change (that class is generated on purpose below)
        pts |= set(t for (t, _, _) in mod.timesigs if first <= t <= last)
    pts = sorted(pts)
    meas = []
    for a, b in zip(pts, pts[1:]):
        if draw(st.integers(0, 4)) < 3:
            meas.append([a, b])
    if mode == "around-ts":
        t = draw(st.sampled_from(inner_ts))
        Lmax = max(spec["L"])
        s = max(first, t - draw(st.integers(1, Lmax)))
        e = min(last, t + draw(st.integers(1, Lmax)))
        if s < t < e:
            meas = [m for m in meas if m[1] <= s or m[0] >= e] + [[s, e]]
            meas.sort()
    return meas, mode


@st.composite
def _number_measures(draw, meas):
    """Existing measures with their numbers: consecutive from 1 (as before), all None (the constructor
    default) or arbitrary (0, gaps, repeats) - add_measures has to renumber them all the same."""
    style = draw(st.sampled_from(["consecutive", "consecutive", "none", "arbitrary"]))
    out = []
    for i, (a, b) in enumerate(meas):
        if style == "consecutive":
            num = i + 1
        elif style == "none":
            num = None
        else:
            num = draw(st.integers(0, 40))
        out.append([a, b, num, str(i + 1)])
    return out, style


@st.composite
def _beat_mode(draw, timesigs, weights):
    """notated / musical (default beats) / musical-custom (user-supplied beats for signatures of the part)."""
    mode = draw(st.sampled_from(weights))
    mbeats = {}
    if mode == "musical-custom":
        for _ in range(draw(st.integers(1, 2))):
            (_, b, bt) = draw(st.sampled_from([tuple(x) for x in timesigs]))
            mbeats["%d/%d" % (b, bt)] = draw(st.integers(1, 6))
    return mode, mbeats


@st.composite
def part_for_measures(draw, tier):
    """Spec for sub-check (a): add_measures alone."""
    sk = draw(skeleton(any_divs=True))
    notes = draw(_notes(sk, 3, False, False, True))
    spec = {"id": "P1", "name": None, "divs": sk["divs"], "timesigs": sk["timesigs"], "measures": [], "notes": notes, "L": sk["L"]}
    meas, mode = draw(_existing_measures(spec, allow_full=False))
    spec["measures"], spec["number_style"] = draw(_number_measures(meas))
    spec["measure_mode"] = mode
    spec["beat_mode"], spec["mbeats"] = draw(_beat_mode(sk["timesigs"], ["notated", "notated", "notated", "musical", "musical", "musical-custom"]))
    # add_measures called a second time has nothing left to add
    spec["twice"] = draw(st.integers(0, 3)) == 0
    return spec


PIPELINES = [
    ["tie_notes"],
    ["find_tuplets"],
    ["sanitize_part"],
    ["fill_rests:mw"],
    ["fill_rests:global"],
    ["add_measures", "tie_notes"],
    ["add_measures", "tie_notes", "find_tuplets"],
    ["add_measures", "tie_notes", "find_tuplets", "sanitize_part"],
    ["add_measures", "fill_rests:global"],
    ["add_measures", "tie_notes", "find_tuplets", "fill_rests:mw", "sanitize_part"],
    ["add_measures", "tie_notes", "find_tuplets", "fill_rests:global", "sanitize_part"],
    ["tie_notes", "find_tuplets", "fill_rests:mw", "sanitize_part"],
]


ALL_OPS = ["add_measures", "tie_notes", "tie_notes", "find_tuplets", "sanitize_part", "fill_rests:mw", "fill_rests:global"]


def occupy_empty_bars(spec, ties_first):
    """Add a one-division rest at the start of every bar (of the measures the part will have: existing
    ones plus the model's new ones) in which nothing would start, so that most fill_rests cases
    get past the empty-measure IndexError (finding fill-rests-empty-measure)."""
    mod = Model(spec)
    bars = [(a, b) for (a, b) in mod.existing]
    if "add_measures" in spec["ops"]:
        for (a, b, why) in mod.expected_new_measures():
            if b is None:
                break
            bars.append((a, b))
    k = 0
    for (a, b) in sorted(bars):
        occupied = False
        for n in spec["notes"]:
            s, e = n["t"], n["t"] + n["dur"]
            if a <= s < b or (ties_first and n["kind"] == "note" and s < a < e):
                occupied = True
                break
        if not occupied:
            k += 1
            spec["notes"].append({"kind": "rest", "id": "r%d" % k, "t": a, "dur": 1, "sym": None, "voice": 1, "staff": 1})
    return spec


@st.composite
def part_for_pipeline(draw, tier):
    """Spec for sub-check (b): notes at arbitrary positions and a pipeline of operations."""
    if draw(st.integers(0, 3)) == 0:
        # any order, with repetitions (the fixed lists above are the orders the importers use)
        ops = draw(st.lists(st.sampled_from(ALL_OPS), min_size=2, max_size=5))
        if draw(st.booleans()) and "add_measures" not in ops:
            ops = ["add_measures"] + ops
        free_order = True
    else:
        ops = list(draw(st.sampled_from(PIPELINES)))
        free_order = False
    fill = any(o.startswith("fill_rests") for o in ops)
    sk = draw(skeleton(any_divs=draw(st.integers(0, 4)) == 0))
    nmax = 6 if tier == "quick" else 9
    notes = draw(_notes(sk, nmax, fill, True, True, with_unpitched=True))
    spec = {"id": "P1", "name": None, "divs": sk["divs"], "timesigs": sk["timesigs"], "measures": [], "notes": notes, "L": sk["L"]}
    meas, mode = draw(_existing_measures(spec, allow_full=True))
    if mode in ("some", "around-ts") and "tie_notes" in ops and ("add_measures" not in ops or ops.index("tie_notes") < ops.index("add_measures")):
        # tie_notes without add_measures: either no measures or a complete tiling (the
        # "within one measure" promise presupposes that every position has a measure)
        meas, mode = [], "none"
    spec["measures"], spec["number_style"] = draw(_number_measures(meas))
    spec["measure_mode"] = mode
    spec["free_order"] = free_order
    spec["beat_mode"], spec["mbeats"] = draw(_beat_mode(sk["timesigs"], ["notated", "notated", "notated", "notated", "notated", "musical", "musical", "musical-custom"]))
    # complete slurs and tuplets between pitched notes (tie_notes has to carry a slur end over to the last tied piece)
    pitched_all = [n for n in notes if n["kind"] == "note"]
    spec["slurs"], spec["tuplets"] = [], []
    if len(pitched_all) >= 1 and draw(st.integers(0, 2)) == 0:
        for _ in range(draw(st.integers(1, 3))):
            a = draw(st.sampled_from(pitched_all))
            later = [n for n in pitched_all if n["t"] >= a["t"] and n["t"] + n["dur"] >= a["t"] + a["dur"]]
            b = draw(st.sampled_from(later))
            if draw(st.integers(0, 3)) == 0:
                spec["tuplets"].append([a["id"], b["id"], 3, 2, "eighth"])
            else:
                spec["slurs"].append([a["id"], b["id"]])
    # how fill_rests gets the part (ScoreLike = Part | Score | PartGroup | list of these) and sanitize_part's tie_tolerance
    spec["fill_arg"] = draw(st.sampled_from(["part", "part", "part", "part", "score", "score", "score", "list", "group"]))
    spec["tie_tolerance"] = draw(st.sampled_from([0, 0, 0, 1, 4]))
    dang = []
    if "sanitize_part" in ops and draw(st.integers(0, 2)) == 0:
        pitched = [n for n in notes if n["kind"] == "note"]
        for _ in range(draw(st.integers(1, 2))):
            kind = draw(st.sampled_from(["slur", "tuplet"]))
            if pitched and draw(st.booleans()):
                nn = draw(st.sampled_from(pitched))
                dang.append({"kind": kind, "side": draw(st.sampled_from(["start", "end"])), "note": nn["id"], "t": nn["t"]})
            else:
                dang.append({"kind": kind, "side": "start", "note": None, "t": draw(st.integers(0, max(0, sk["T"])))})
    spec["dangling"] = dang
    spec["ops"] = ops
    if "fill_rests:mw" in ops and draw(st.integers(0, 3)) > 0:
        occupy_empty_bars(spec, "tie_notes" in ops)
    # note ids of the form X-Y as unfolded parts have them (_make_tied_note_id appends its letter to X)
    if draw(st.integers(0, 3)) == 0:
        _suffix_ids(spec, "-1")
    return spec


def _suffix_ids(spec, suffix):
    ren = {n["id"]: n["id"] + suffix for n in spec["notes"]}
    for n in spec["notes"]:
        n["id"] = ren[n["id"]]
        for k in ("tie_next", "tie_prev", "grace_next"):
            if n.get(k):
                n[k] = ren[n[k]]
    for dg in spec.get("dangling", []):
        if dg.get("note"):
            dg["note"] = ren[dg["note"]]
    spec["slurs"] = [[ren[a], ren[b]] for a, b in spec.get("slurs", [])]
    spec["tuplets"] = [[ren[t[0]], ren[t[1]]] + list(t[2:]) for t in spec.get("tuplets", [])]
    spec["id_suffix"] = suffix
