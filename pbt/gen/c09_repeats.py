"""C09 generators: bar-level repeat structures, navigation marks and simple per-bar notes.

Everything drawn here is plain JSON.  ``case()`` returns

    {"part": <part spec in the shared ScoreSpec format (pbt/gen/scorespec.py)>,
     "structure": [sections]   (see pbt/ref/c09_unfold.py),
     "marks": [[class name, bar line], ...],
     "marks_mode": "none" | "dc_al_fine" | "ds_al_fine" | "dc_al_coda" | "ds_al_coda" | "arbitrary",
     "policy": ..., "update_ids": bool, "ignore_leaps": bool, "as_score": bool}

``build_case_part`` turns it into a fresh partitura Part through the public API
(shared ``build_part`` for notes, then Repeat / Ending / navigation objects).
"""

from fractions import Fraction

from hypothesis import strategies as st

import partitura.score as S
from pbt.gen.build import build_part
from pbt.ref import c09_unfold as R

TIME_SIGS = [(4, 4), (3, 4), (2, 4), (6, 8), (3, 8), (2, 2), (5, 8)]
DIVS = [1, 2, 3, 4, 6, 8, 12]
ENDING_PATTERNS = [
    [[1], [2]],
    [[1], [2]],
    [[1], [2]],
    [[1, 2], [3]],
    [[1, 2], [3]],
    [[1], [2], [3]],
    [[1], [2], [3]],
    [[1], [2, 3]],
    [[1, 2, 3], [4]],
]
POLICIES = ["maximal", "minimal", "all_iter", "all_variants", "paths_max", "paths_all"]


# --------------------------------------------------------------------------
# structure grammar
# --------------------------------------------------------------------------
@st.composite
def _plain(draw, hi=2):
    return {"k": "plain", "n": draw(st.integers(1, hi))}


@st.composite
def _simple_rep(draw):
    return {"k": "rep", "body": [draw(_plain())]}


@st.composite
def _volta(draw, inner=False):
    body = [draw(_plain())]
    if inner and draw(st.integers(0, 3)) == 0:
        body = [draw(_plain(1)), draw(_simple_rep()), draw(_plain(1))]
    pat = draw(st.sampled_from(ENDING_PATTERNS))
    sep = draw(st.sampled_from([",", ", "]))
    ends = [{"nums": list(nums), "n": draw(st.sampled_from([1, 1, 1, 2])), "sep": sep} for nums in pat]
    return {"k": "volta", "body": body, "endings": ends}


@st.composite
def _nested(draw, depth=0):
    body = [draw(_plain(1))]
    for _ in range(draw(st.sampled_from([1, 1, 1, 2]))):
        pick = draw(st.integers(0, 5))
        if pick == 0:
            body.append(draw(_volta()))
        elif pick == 1 and depth == 0:
            # (generator audit) a repeat inside a repeat inside a repeat
            body.append(draw(_nested(depth=1)))
        else:
            body.append(draw(_simple_rep()))
        body.append(draw(_plain(1)))
    return {"k": "rep", "body": body}


@st.composite
def structure(draw, kinds=("plain", "rep", "volta", "nested"), min_sections=1, max_sections=4):
    secs = []
    if "long-chain" in kinds and draw(st.integers(0, 11)) == 0:
        # (generator audit) more segments than letters: 14-20 one-bar repeats separated by one-bar plain sections
        for _ in range(draw(st.integers(14, 20))):
            secs.append({"k": "rep", "body": [{"k": "plain", "n": 1}]})
            secs.append({"k": "plain", "n": 1})
        return secs
    kinds = [k for k in kinds if k != "long-chain"]
    n = draw(st.integers(min_sections, max_sections))
    for _ in range(n):
        k = draw(st.sampled_from(list(kinds)))
        if k == "plain" and secs and secs[-1]["k"] == "plain" and "rep" in kinds:
            k = "rep"
        if k == "plain":
            secs.append(draw(_plain()))
        elif k == "rep":
            secs.append(draw(_simple_rep()))
        elif k == "volta":
            secs.append(draw(_volta(inner=True)))
        else:
            secs.append(draw(_nested()))
    return secs


def top_boundaries(structure_):
    """Interior bar lines between top-level sections."""
    tree = R.layout(structure_)["tree"]
    return [nd["a"] for nd in tree[1:]]


# --------------------------------------------------------------------------
# navigation marks
# --------------------------------------------------------------------------
def outside_barlines(structure_):
    """Interior bar lines that are not strictly inside a repeated section or a group of endings."""
    lay = R.layout(structure_)
    inside = set()
    for nd in lay["tree"]:
        if nd["k"] != "plain":
            inside.update(range(nd["a"] + 1, nd["b"]))
    return [k for k in range(1, lay["n"]) if k not in inside]


NEED = {"dc_al_fine": 1, "ds_al_fine": 2, "dc_al_coda": 2, "ds_al_coda": 3, "arbitrary": 1, "inert_inside": 0, "none": 0}


def pad_for_marks(structure_, mode):
    """Append plain bars until the textbook arrangement has enough bar lines outside the brackets."""
    st_ = list(structure_)
    while len(outside_barlines(st_)) < NEED[mode]:
        st_.append({"k": "plain", "n": 1})
    return st_


@st.composite
def marks_for(draw, structure_, mode):
    """Marks on bar lines. Textbook arrangements and 'arbitrary' use bar lines outside the brackets
    (section boundaries, inside plain sections, start and end of the piece); 'inert_inside' puts marks that
    cannot cause a jump on their own (fine, segno, coda, to coda) on any bar line, also inside brackets."""
    n = R.layout(structure_)["n"]
    if mode == "none":
        return []
    cand = outside_barlines(structure_)
    if mode == "inert_inside":
        out = []
        which = draw(st.lists(st.sampled_from(["Fine", "Segno", "Coda", "ToCoda"]), min_size=1, max_size=3, unique=True))
        if "Fine" in which:
            out.append(["Fine", draw(st.integers(1, n))])
        if "Segno" in which:
            out.append(["Segno", draw(st.integers(0, n - 1))])
        if "Coda" in which or "ToCoda" in which:
            cd = draw(st.integers(0, n - 1))
            out.append(["Coda", cd])
            if "ToCoda" in which and cd >= 2:
                out.append(["ToCoda", draw(st.integers(1, cd - 1))])
        return out
    if mode == "arbitrary":
        # any combination on the bar lines outside the brackets; only the direction of a jump is kept
        # meaningful: dal segno stands after its segno, the coda starts after the to-coda mark
        out = []
        starts = [0] + cand
        ends = cand + [n]
        which = draw(st.lists(st.sampled_from(["DaCapo", "DaCapo", "Fine", "Segno", "Segno", "Coda"]), min_size=1, max_size=4, unique=True))
        if "DaCapo" in which:
            out.append(["DaCapo", draw(st.sampled_from(ends))])
        if "Fine" in which:
            out.append(["Fine", draw(st.sampled_from(ends))])
        if "Segno" in which:
            sg = draw(st.sampled_from(starts))
            out.append(["Segno", sg])
            later = [k for k in ends if k > sg]
            if later and draw(st.integers(0, 4)) != 0:
                out.append(["DalSegno", draw(st.sampled_from(later))])
        if "Coda" in which:
            cd = draw(st.sampled_from(starts))
            out.append(["Coda", cd])
            earlier = [k for k in ends if k < cd]
            if earlier and draw(st.integers(0, 4)) != 0:
                out.append(["ToCoda", draw(st.sampled_from(earlier))])
        return out
    need = NEED[mode]
    idx = sorted(draw(st.lists(st.integers(0, len(cand) - 1), min_size=need, max_size=need, unique=True)))
    pos = [cand[i] for i in idx]
    if mode == "dc_al_fine":
        return [["Fine", pos[0]], ["DaCapo", n]]
    if mode == "ds_al_fine":
        return [["Segno", pos[0]], ["Fine", pos[1]], ["DalSegno", n]]
    if mode == "dc_al_coda":
        return [["ToCoda", pos[0]], ["DaCapo", pos[1]], ["Coda", pos[1]]]
    return [["Segno", pos[0]], ["ToCoda", pos[1]], ["DalSegno", pos[2]], ["Coda", pos[2]]]


# --------------------------------------------------------------------------
# notes: simple per-bar material in the shared part-spec format
# --------------------------------------------------------------------------
def _valid_divs(ts):
    q = Fraction(ts[0] * 4, ts[1])
    return [d for d in DIVS if (q * d).denominator == 1]


@st.composite
def part_for(draw, nbars, rich=True, crossing_at=()):
    """A part spec with exactly ``nbars`` bars. ``crossing_at``: bar lines where ties / slurs across
    the bar line are favoured (segment boundaries)."""
    ts = draw(st.sampled_from(TIME_SIGS))
    d = draw(st.sampled_from(_valid_divs(ts)))
    divs = [[0, d]]
    timesigs = [[0, ts[0], ts[1]]]
    measures = []
    t = 0
    pickup_len = None
    for b in range(nbars):
        if b > 0 and rich:
            if draw(st.integers(0, 5)) == 0:
                ts2 = draw(st.sampled_from(TIME_SIGS))
                if ts2 != ts:
                    ts = ts2
                    timesigs.append([t, ts[0], ts[1]])
                    if d not in _valid_divs(ts):
                        d = draw(st.sampled_from(_valid_divs(ts)))
                        divs.append([t, d])
            if draw(st.integers(0, 4)) == 0:
                d2 = draw(st.sampled_from(_valid_divs(ts)))
                if d2 != d:
                    d = d2
                    if divs[-1][0] == t:
                        divs[-1][1] = d
                    else:
                        divs.append([t, d])
        L = int(Fraction(ts[0] * 4, ts[1]) * d)
        if b == 0 and rich and nbars > 1 and L > 1 and draw(st.integers(0, 4)) == 0:
            # (generator audit) the piece starts with a pickup: the first bar is shorter than its signature
            L = draw(st.integers(1, L - 1))
            pickup_len = L
        measures.append([t, t + L, b + 1, str(b + 1)])
        t += L
    dd = []
    for e in divs:
        if dd and dd[-1][1] == e[1]:
            continue
        dd.append(e)
    divs = dd
    end = t
    nvoices = draw(st.integers(1, 2)) if rich else 1
    notes = []
    counter = [0]

    def nid(prefix="n"):
        counter[0] += 1
        return "%s%d" % (prefix, counter[0])

    heads = {}  # voice -> list of head notes (first note of each pitched event) in time order
    for v in range(1, nvoices + 1):
        staff = 1 if v == 1 else draw(st.integers(1, 2))
        heads[v] = []
        for b, (s0, e0, _, _) in enumerate(measures):
            if v > 1 and draw(st.integers(0, 2)) == 0:
                heads[v].append(None)  # gap: no adjacency across an empty bar
                continue
            L = e0 - s0
            k = draw(st.integers(1, min(3, L)))
            pos = s0
            for j in range(k):
                left = k - 1 - j
                ln = (e0 - pos) if left == 0 else draw(st.integers(1, (e0 - pos) - left))
                slot = draw(st.sampled_from(["note", "note", "note", "note", "chord", "rest"])) if rich else "note"
                if slot == "rest":
                    notes.append({"id": nid("r"), "kind": "rest", "t": pos, "dur": ln, "voice": v, "staff": staff, "sym": None})
                    heads[v].append(None)
                else:
                    first = None
                    for c in range(1 if slot == "note" else 2):
                        nn = {"id": nid(), "kind": "note", "t": pos, "dur": ln, "step": draw(st.sampled_from("CDEFGAB")),
                              "alter": draw(st.sampled_from([0, 0, 0, 1, -1])), "octave": draw(st.integers(3, 5)),
                              "voice": v, "staff": staff, "sym": None}
                        notes.append(nn)
                        first = first or nn
                    heads[v].append(first)
                pos += ln
    barlines = set(m[0] for m in measures)
    crossing_at = set(crossing_at)
    slurs, tuplets = [], []
    if rich:
        for v in heads:
            hs = heads[v]
            for a, b in zip(hs, hs[1:]):
                if a is None or b is None or a["t"] + a["dur"] != b["t"]:
                    continue
                p = 2 if b["t"] in crossing_at else (3 if b["t"] in barlines else 6)
                if "tie_next" not in a and draw(st.integers(0, p - 1)) == 0:
                    b["step"], b["alter"], b["octave"] = a["step"], a["alter"], a["octave"]
                    a["tie_next"] = b["id"]
                    b["tie_prev"] = a["id"]
            pitched = [h for h in hs if h is not None]
            if len(pitched) >= 2:
                for _ in range(draw(st.integers(0, 2))):
                    i = draw(st.integers(0, len(pitched) - 2))
                    j = min(len(pitched) - 1, i + draw(st.integers(1, 3)))
                    if [pitched[i]["id"], pitched[j]["id"]] not in slurs:
                        slurs.append([pitched[i]["id"], pitched[j]["id"]])
                for _ in range(draw(st.sampled_from([0, 0, 1, 1, 2]))):
                    i = draw(st.integers(0, len(pitched) - 2))
                    j = min(len(pitched) - 1, i + draw(st.integers(1, 2)))
                    a, nrm = draw(st.sampled_from([(3, 2), (5, 4)]))
                    if not any(x[0] == pitched[i]["id"] and x[1] == pitched[j]["id"] for x in tuplets):
                        tuplets.append([pitched[i]["id"], pitched[j]["id"], a, nrm, "eighth"])
            # grace notes in front of a main note
            if pitched and draw(st.integers(0, 2)) == 0:
                main = pitched[draw(st.integers(0, len(pitched) - 1))]
                chain = []
                for _ in range(draw(st.integers(1, 2))):
                    chain.append({"id": nid("g"), "kind": "grace", "t": main["t"], "dur": 0, "step": draw(st.sampled_from("CDEFGAB")), "alter": 0,
                                  "octave": draw(st.integers(3, 5)), "voice": v, "staff": main["staff"], "sym": {"type": "eighth"},
                                  "grace_type": draw(st.sampled_from(["grace", "acciaccatura", "appoggiatura"]))})
                for x, y in zip(chain, chain[1:] + [main]):
                    x["grace_next"] = y["id"]
                for g in chain:
                    notes.insert(notes.index(main), g)
    # ---- generator audit: what else a real part holds ---------------------------------------------------
    keysigs, clefs, tempos, spans = [], [], [], []
    if rich:
        starts = [m[0] for m in measures]
        linked = set()
        for n_ in notes:
            for key in ("tie_next", "tie_prev", "grace_next"):
                if n_.get(key):
                    linked.add(n_["id"])
                    linked.add(n_[key])
        for x in slurs + [tp[:2] for tp in tuplets]:
            linked.update(x)
        # notes that state no voice / no staff, unpitched notes (attributes must be copied as they are)
        if draw(st.integers(0, 3)) == 0:
            for n_ in notes:
                if draw(st.integers(0, 3)) == 0:
                    n_["staff"] = None
                if n_["kind"] == "note" and n_["id"] not in linked and draw(st.integers(0, 4)) == 0:
                    n_["kind"] = "unpitched"
                    del n_["alter"]
        # signatures, clefs and tempo marks on bar lines; directions, pedals, pages and systems that span bar lines
        # (also segment boundaries): none of them is judged itself, the unfolded part must stay consistent
        if draw(st.integers(0, 1)) == 0:
            for _ in range(draw(st.integers(0, 2))):
                tk = draw(st.sampled_from(starts))
                if all(k[0] != tk for k in keysigs):
                    keysigs.append([tk, draw(st.integers(-4, 4)), draw(st.sampled_from(["major", "minor", None]))])
            for _ in range(draw(st.integers(0, 2))):
                tk = draw(st.sampled_from(starts))
                if all(c[0] != tk for c in clefs):
                    clefs.append([tk, 1] + list(draw(st.sampled_from([["G", 2, 0], ["F", 4, 0], ["G", 2, -1]]))))
            if draw(st.integers(0, 2)) == 0:
                tempos.append([draw(st.sampled_from(starts)), draw(st.sampled_from([60, 96, 120])), "q"])
            for _ in range(draw(st.integers(0, 2))):
                i = draw(st.integers(0, nbars - 1))
                j = draw(st.integers(i, nbars - 1))
                spans.append([draw(st.sampled_from(["wedge", "pedal", "dashes"])), measures[i][0], measures[j][1]])
            if draw(st.integers(0, 2)) == 0:
                spans.append(["page-and-system", 0, end])
        keysigs.sort()
        clefs.sort()
    return {
        "id": "P1",
        "name": draw(st.sampled_from([None, "Piano"])),
        "divs": divs,
        "measures": measures,
        "timesigs": timesigs,
        "keysigs": keysigs,
        "clefs": clefs,
        "tempos": tempos,
        "spans": spans,
        "notes": notes,
        "tuplets": tuplets,
        "slurs": slurs,
        "end": end,
        "pickup": pickup_len,
    }


# --------------------------------------------------------------------------
# size bound for the "all variants" policies (generator hygiene only, not an oracle):
# the number of paths the enumeration walks through grows exponentially with nested
# choice points, so big structures are routed to the single-path policies
# --------------------------------------------------------------------------
_VOLTA_FACTOR = {"1|2": 2, "1,2|3": 9, "1|2|3": 4, "1|2,3": 8, "1,2,3|4": 82}
MAX_PATHS = 1500
DOWNGRADE = {"all_iter": "maximal", "all_variants": "minimal", "paths_all": "paths_max", "alignment": "maximal"}


def _est(sections):
    v = 1
    for s in sections:
        if s["k"] == "plain":
            continue
        e = _est(s["body"])
        if s["k"] == "rep":
            v *= e + e * e
        else:
            total = sum(len(x["nums"]) for x in s["endings"])
            key = "|".join(",".join(str(n) for n in x["nums"]) for x in s["endings"])
            v *= _VOLTA_FACTOR.get(key, total ** total) * e ** total
    return v


def estimate_paths(structure_, marks):
    e = _est(structure_)
    for c, _ in marks:
        if c in ("DaCapo", "DalSegno"):
            e = e + e * e
    return e


# --------------------------------------------------------------------------
# complete cases
# --------------------------------------------------------------------------
@st.composite
def case(draw, kinds=("plain", "rep", "volta", "nested"), marks_modes=("none",), policies=POLICIES, rich=True,
         min_sections=1, max_sections=4):
    mode = draw(st.sampled_from(list(marks_modes)))
    stc = pad_for_marks(draw(structure(kinds, min_sections, max_sections)), mode)
    marks = draw(marks_for(stc, mode))
    lay = R.layout(stc)
    bs = R.boundaries(lay, marks)
    part = draw(part_for(lay["n"], rich=rich, crossing_at=()))
    # favour ties over segment boundaries: bar line index -> time
    cross = [part["measures"][k][0] for k in bs if 0 < k < lay["n"]]
    if rich and cross:
        part = draw(_add_crossing_ties(part, cross))
    policy = draw(st.sampled_from(list(policies)))
    if lay["n"] > 24 and policy in DOWNGRADE:
        policy = DOWNGRADE[policy]  # the long chain has 2^14 and more variants
    if policy == "alignment" and estimate_paths(stc, marks) > 40:
        # unfold_part_alignment builds the part of every variant before it chooses one
        policy = "maximal"
    if policy in DOWNGRADE and estimate_paths(stc, marks) > MAX_PATHS:
        # enumerating all variants is exponential in the number of choice points: keep such structures
        # for the single-path policies
        policy = DOWNGRADE[policy]
    return {
        "part": part,
        "structure": stc,
        "marks": marks,
        "marks_mode": mode,
        "policy": policy,
        "update_ids": draw(st.booleans()),
        "ignore_leaps": draw(st.booleans()),
        "as_score": draw(st.integers(0, 5)) == 0,
        # ---- generator audit
        # a Score argument with two parts (the same material built twice)
        "score_parts": draw(st.sampled_from([1, 2])),
        # single ending numbers as int (the documented type of Ending.number) instead of str (what the importers pass)
        "ending_ints": draw(st.integers(0, 7)) == 0,
    }


@st.composite
def _add_crossing_ties(draw, part, times):
    """Tie (or slur) the last note before a segment boundary to the first note after it, voice by voice."""
    notes = part["notes"]
    for t in times:
        for v in sorted(set(n["voice"] for n in notes)):
            before = [n for n in notes if n["voice"] == v and n["kind"] == "note" and n["t"] + n["dur"] == t]
            after = [n for n in notes if n["voice"] == v and n["kind"] == "note" and n["t"] == t]
            if not before or not after:
                continue
            a, b = before[0], after[0]
            what = draw(st.sampled_from(["tie", "tie", "slur", "tuplet", "none", "none"]))
            if what == "tie" and "tie_next" not in a and "tie_prev" not in b:
                b["step"], b["alter"], b["octave"] = a["step"], a["alter"], a["octave"]
                a["tie_next"] = b["id"]
                b["tie_prev"] = a["id"]
            elif what == "slur" and [a["id"], b["id"]] not in part["slurs"]:
                part["slurs"].append([a["id"], b["id"]])
            elif what == "tuplet" and not any(x[0] == a["id"] and x[1] == b["id"] for x in part["tuplets"]):
                part["tuplets"].append([a["id"], b["id"], 3, 2, "eighth"])
    return part


# --------------------------------------------------------------------------
# building live objects
# --------------------------------------------------------------------------
def barline_times(part_spec):
    ms = part_spec["measures"]
    return [m[0] for m in ms] + [ms[-1][1]]


def build_case_part(spec, pid=None):
    """Fresh Part for the case: notes through the shared builder, then brackets and marks."""
    part, objs = build_part(dict(spec["part"], id=pid) if pid else spec["part"])
    if spec["part"].get("abbr"):
        part.part_abbreviation = spec["part"]["abbr"]
    lay = R.layout(spec["structure"])
    bt = barline_times(spec["part"])
    for s, e in lay["repeats"]:
        part.add(S.Repeat(), bt[s], bt[e])
    for num, s, e in lay["endings"]:
        if spec.get("ending_ints") and str(num).isdigit():
            num = int(num)
        part.add(S.Ending(num), bt[s], bt[e])
    for cls, k in spec["marks"]:
        part.add(getattr(S, cls)(), bt[int(k)])
    for kind, t0, t1 in spec["part"].get("spans", []):
        if kind == "wedge":
            part.add(S.IncreasingLoudnessDirection("crescendo", wedge=True), t0, t1)
        elif kind == "pedal":
            part.add(S.SustainPedalDirection(), t0, t1)
        elif kind == "dashes":
            part.add(S.DecreasingTempoDirection("ritardando", "rit."), t0, t1)
        else:
            part.add(S.Page(1), t0, t1)
            part.add(S.System(1), t0, t1)
    return part, objs
