"""Generator for property C18: a score part, a performance aligned to it and an alignment.

The part comes from the shared ``scorespec.part_spec`` (one part, constant divisions,
chords, voices, grace notes, pickup).  On top of it this module draws, by construction:

* optionally one *unison*: a note gets the pitch of another note that starts at the same
  time in another voice (or of the main note of a grace note), so that rows with equal
  (score onset, pitch) exist;
* a performed time (integer milliseconds) for every distinct score onset: the first one
  anywhere in 0..3 s, then strictly positive inter-onset intervals, either ``k * score
  interval`` with one k (constant tempo), or free (10..3000 ms), or piecewise constant;
* for notes that share a score onset an individual deviation of at most
  ``(min adjacent interval - 1) // 2`` ms (and at most 30 ms), so that the mean performed
  onset of *any* subset of one onset group lies strictly between those of its neighbours;
* per note a performed duration (1..74 ms in the labelled class "short", else 75..3000 ms)
  and a velocity 1..127;
* a role for every score note: matched / deleted / matched to a performance id that does
  not exist; extra performed notes: insertions, ornaments (referring to a score note) and
  notes matched to a score id that does not exist;
* the order of the alignment list and of the performed notes (arbitrary permutations),
  performance ids that may live in the same name space as the score ids.

Everything is a JSON spec; ``build_inputs`` creates the partitura objects.
"""

from hypothesis import assume
from hypothesis import strategies as st

from pbt.gen import scorespec as G

PROFILE = G.profile(max_bars=3, max_voices=3, max_staves=1, div_changes=False, midbar_changes=False,
                    key_changes=False, clefs=False, irregular=False)

NORMS = ["beat_period", "beat_period_log", "beat_period_ratio", "beat_period_ratio_log", "beat_period_standardized"]
NORM_COLUMNS = {
    "beat_period": [],
    "beat_period_log": ["beat_period_log"],
    "beat_period_ratio": ["beat_period_ratio", "beat_period_mean"],
    "beat_period_ratio_log": ["beat_period_ratio_log", "beat_period_mean"],
    "beat_period_standardized": ["beat_period_standardized", "beat_period_mean", "beat_period_std"],
}
METHODS = ["average", "derivative"]


def heads(ps):
    """Sounding notes of the part spec: [(t, dur, pitch, id)] (tie chains merged, grace notes zero length)."""
    return [(t, d, p, i) for (t, d, p, i, _) in G.PartRef(ps).sounding_notes()]


def _unison_candidates(ps):
    notes = [n for n in ps["notes"] if n["kind"] in ("note", "grace") and not n.get("tie_prev") and not n.get("tie_next")]
    out = []
    for a in notes:
        for b in notes:
            if a is b or a["t"] != b["t"]:
                continue
            if a["voice"] == b["voice"] and a["kind"] == b["kind"]:
                continue  # two heads of one chord never share a pitch
            pa = (a["step"], a["alter"], a["octave"])
            mates = [x for x in notes if x is not b and x["t"] == b["t"] and x["voice"] == b["voice"] and x["kind"] == b["kind"]]
            if any((x["step"], x["alter"], x["octave"]) == pa for x in mates):
                continue
            out.append((a["id"], b["id"]))
    return out


@st.composite
def case(draw, tier="quick", all_matched=None):
    prof = dict(PROFILE)
    if tier == "thorough":
        prof["max_bars"] = 5
    ps = draw(G.part_spec(prof))
    hs = heads(ps)
    assume(len(hs) >= 1)
    # ---- unison ------------------------------------------------------------
    if draw(st.integers(0, 3)) == 0:
        cand = _unison_candidates(ps)
        if cand:
            src, dst = cand[draw(st.integers(0, len(cand) - 1))]
            byid = {n["id"]: n for n in ps["notes"]}
            for k in ("step", "alter", "octave"):
                byid[dst][k] = byid[src][k]
            hs = heads(ps)
    d = ps["divs"][0][1]
    onsets = sorted(set(h[0] for h in hs))
    # ---- performed time of every score onset -----------------------------------
    mode = draw(st.sampled_from(["free", "free", "const", "piecewise"]))
    start = draw(st.integers(0, 3000))
    kmin, kmax = max(1, -(-60 // d)), max(2, 2400 // d)  # ms per division: quarter between ~60 and 2400 ms
    times = [start]
    if mode == "const":
        k = draw(st.integers(kmin, kmax))
        for a, b in zip(onsets, onsets[1:]):
            times.append(times[-1] + k * (b - a))
    elif mode == "piecewise":
        k = draw(st.integers(kmin, kmax))
        for a, b in zip(onsets, onsets[1:]):
            if draw(st.integers(0, 2)) == 0:
                k = draw(st.integers(kmin, kmax))
            times.append(times[-1] + k * (b - a))
    else:
        for a, b in zip(onsets, onsets[1:]):
            times.append(times[-1] + draw(st.integers(10, 3000)))
    tmap = dict(zip(onsets, times))
    iois = [b - a for a, b in zip(times, times[1:])]
    maxdev = {}
    for i, t in enumerate(onsets):
        adj = ([iois[i - 1]] if i > 0 else []) + ([iois[i]] if i < len(iois) else [])
        maxdev[t] = min([30] + [(x - 1) // 2 for x in adj])
    group_size = {}
    for h in hs:
        group_size[h[0]] = group_size.get(h[0], 0) + 1
    # ---- roles, performed notes ------------------------------------------------------
    everything = draw(st.booleans()) if all_matched is None else all_matched
    shorts = draw(st.integers(0, 2)) == 0  # one case in three has performed durations below 75 ms
    perf = []
    align = []
    n_real_match = 0
    for (t, dur, pitch, sid) in hs:
        role = "match" if everything else draw(st.sampled_from(["match"] * 8 + ["deletion", "deletion", "ghost-perf"]))
        if role == "deletion":
            align.append({"label": "deletion", "score_id": sid})
            continue
        if role == "ghost-perf":
            align.append({"label": "match", "score_id": sid, "performance_id": "ghost%d" % len(align)})
            continue
        dev = 0
        if group_size[t] > 1 and maxdev[t] > 0:
            dev = draw(st.integers(-min(maxdev[t], tmap[t]), maxdev[t]))  # note-on times are never negative
        pd = draw(st.integers(1, 74)) if (shorts and draw(st.integers(0, 3)) == 0) else draw(st.integers(75, 3000))
        vel = draw(st.integers(1, 127))
        perf.append({"pitch": pitch, "on": tmap[t] + dev, "dur": pd, "vel": vel, "_sid": sid})
        n_real_match += 1
    if n_real_match == 0:
        # at least one real match: turn the first score note into one
        (t, dur, pitch, sid) = hs[0]
        align = [a for a in align if a.get("score_id") != sid]
        perf.append({"pitch": pitch, "on": tmap[t], "dur": draw(st.integers(75, 3000)), "vel": draw(st.integers(1, 127)), "_sid": sid})
    last = times[-1] + 500
    n_extra = 0 if everything else draw(st.integers(0, 3))
    extras = []
    for _ in range(n_extra):
        kind = draw(st.sampled_from(["insertion", "insertion", "ornament", "ghost-score"]))
        pn = {"pitch": draw(st.integers(21, 108)), "on": draw(st.integers(0, last)), "dur": draw(st.integers(1, 2000)), "vel": draw(st.integers(1, 127)), "_kind": kind}
        if kind == "ornament":
            pn["_ref"] = hs[draw(st.integers(0, len(hs) - 1))][3]
        extras.append(pn)
    perf = perf + extras
    # ---- ids, orders -----------------------------------------------------------------------
    prefix = draw(st.sampled_from(["p", "p", "n"]))
    numbering = draw(st.permutations(list(range(1, len(perf) + 1))))
    for pn, k in zip(perf, numbering):
        pn["id"] = "%s%d" % (prefix, k)
    for pn in perf:
        if "_sid" in pn:
            align.append({"label": "match", "score_id": pn.pop("_sid"), "performance_id": pn["id"]})
        else:
            kind = pn.pop("_kind")
            if kind == "insertion":
                align.append({"label": "insertion", "performance_id": pn["id"]})
            elif kind == "ornament":
                align.append({"label": "ornament", "score_id": pn.pop("_ref"), "performance_id": pn["id"]})
            else:
                align.append({"label": "match", "score_id": "ghost-s%s" % pn["id"], "performance_id": pn["id"]})
    if draw(st.booleans()):
        perf = sorted(perf, key=lambda x: (x["on"], x["pitch"], x["id"]))
    else:
        perf = list(draw(st.permutations(perf)))
    if draw(st.integers(0, 2)) > 0:
        align = list(draw(st.permutations(align)))
    return {
        "part": ps,
        "perf": perf,
        "align": align,
        "tempo_mode": mode,
        # audit: a PartGroup with the part as only child is a documented ScoreLike too
        "score_as": draw(st.sampled_from(["part", "part", "score", "group"])),
        "perf_as": draw(st.sampled_from(["ppart", "ppart", "performance"])),
        # ---- generator audit (docs/audit/C18.md); every key is read with spec.get()
        # tempo_smooth may be a callable (documented): a user-defined curve on the unique score onsets
        "callable_curve": draw(st.sampled_from([None, None, "constant", "scaled", "zigzag"])),
        # rows / snote_ids handed to decode_performance in another order than encode_performance returned them
        "decode_order": draw(st.sampled_from(["given", "given", "permuted", "reversed"])),
        "perm_keys": draw(st.lists(st.integers(0, 1000), min_size=len(hs), max_size=len(hs))),
        "extra_cfg": draw(st.integers(0, 9)),
        "return_alignment": draw(st.booleans()),
        "name_decoded_part": draw(st.booleans()),
        # alignment ids as numpy strings (an alignment built from the id columns of note arrays)
        "ids_as_numpy": draw(st.integers(0, 3)) == 0,
        # one alignment list handed to every call (the codec rewrites score ids in place)
        "reuse_alignment": draw(st.integers(0, 2)) == 0,
        "markings": draw(st.integers(0, 2)) == 0,
    }


def build_inputs(spec):
    """(score-like, part, performance-like, performed part) from a spec."""
    import partitura.score as S
    import partitura.performance as P
    from pbt.gen.build import build_part

    part, _ = build_part(spec["part"])
    sa = spec.get("score_as", "part")
    if sa == "group":
        score = S.PartGroup(group_symbol="bracket", group_name="G")
        score.children = [part]
        part.parent = score
    else:
        score = part if sa == "part" else S.Score(partlist=[part], id="s")
    notes = []
    for pn in spec["perf"]:
        on = pn["on"] / 1000.0
        off = (pn["on"] + pn["dur"]) / 1000.0
        notes.append(dict(id=pn["id"], midi_pitch=int(pn["pitch"]), note_on=on, note_off=off, sound_off=off, velocity=int(pn["vel"]), track=0, channel=1))
    ppart = P.PerformedPart(notes, id="pp", part_name="perf")
    perf = ppart if spec.get("perf_as", "ppart") == "ppart" else P.Performance(ppart, id="perf")
    return score, part, perf, ppart


def alignment_copy(spec):
    """The SUT converts score ids in place; hand it a fresh list of fresh dicts (ids as numpy strings if asked)."""
    out = [dict(a) for a in spec["align"]]
    if spec.get("ids_as_numpy", False):
        import numpy as np

        for a in out:
            for k in ("score_id", "performance_id"):
                if k in a:
                    a[k] = np.str_(a[k])
    return out
