"""C19 - abstract score shared by the MEI and the kern renderer.

The shared generator (``scorespec.part_spec``) produces ONE timeline (constant
divisions ``d``, regular bars, time/key signature changes on bar lines) with up to
four rhythmically independent voices.  This module regroups that flat note list
into *events* per voice and bar (single note / chord / rest, grace notes in front,
tuplet group membership) and offers the operations both renderers need:

* an optional anacrusis, made by cutting the first bar at an event boundary common
  to all voices (so every remaining event keeps its notated value);
* filler rests for a container (MEI staff, kern spine) that must be rhythmically
  complete in a bar where its voice is absent (the rhythm of voice 1 is copied as
  rests, so every filler has a notated value, too).

All times stay integers in units of ``d`` per quarter; ``q(t)`` is the exact
quarter position.  Nothing here imports partitura.
"""

import copy
from fractions import Fraction

from pbt.gen import scorespec as G

# every bar can be filled with the generator's note values for these divisions (16 and 48 leave remainders smaller than a 32nd)
DIVS = [1, 2, 3, 4, 6, 8, 12, 24, 5, 10, 20, 7, 14]

PROFILE = G.profile(
    max_bars=3,
    max_voices=3,
    max_staves=1,
    pickup=False,
    irregular=False,
    ts_changes=True,
    div_changes=False,
    midbar_changes=False,
    key_changes=True,
    clefs=False,
    rests=True,
    chords=True,
    ties=True,
    grace=True,
    tuplets=True,
    divs_choices=DIVS,
    alters=(-2, -1, -1, 0, 0, 0, 0, 0, 1, 1, 2),
)

RECIP = {"long": Fraction(1, 4), "breve": Fraction(1, 2), "whole": 1, "half": 2, "quarter": 4, "eighth": 8, "16th": 16, "32nd": 32, "64th": 64, "128th": 128}


SHORTER2 = {"long": "whole", "breve": "half", "whole": "quarter", "half": "eighth", "quarter": "16th", "eighth": "32nd", "16th": "64th", "32nd": "128th"}

# note values in order; scale_spec moves every value up (augmentation) or down (diminution) this list
VALUE_ORDER = ["128th", "64th", "32nd", "16th", "eighth", "quarter", "half", "whole", "breve", "long"]


def scale_spec(ps, k):
    """The same music written in note values 2**k times as long (k > 0: whole -> breve / long, the timeline is stretched,
    the beat unit of every time signature gets 2**k times as long) or 2**-k times as long (k < 0: 32nd -> 64th / 128th, the
    divisions are multiplied instead).  Returns (spec, k actually applied): k is reduced until every value stays between
    128th and long and every beat unit between 1 and 64.  An exact transformation of the abstract score: every notated
    value still equals its length on the timeline."""
    import copy as _copy

    types = [n["sym"]["type"] for n in ps["notes"] if n.get("sym")]
    bts = [bt for (_t, _b, bt) in ps["timesigs"]]
    while k != 0:
        idx = [VALUE_ORDER.index(t) + k for t in types]
        ok = all(0 <= i < len(VALUE_ORDER) for i in idx)
        ok = ok and all((bt % (2 ** k) == 0 and bt // (2 ** k) >= 1) if k > 0 else bt * 2 ** (-k) <= 64 for bt in bts)
        if ok:
            break
        k += -1 if k > 0 else 1
    if k == 0:
        return ps, 0
    ps = _copy.deepcopy(ps)
    for n in ps["notes"]:
        if n.get("sym"):
            # (chord members may share one dict: every note gets its own)
            n["sym"] = dict(n["sym"], type=VALUE_ORDER[VALUE_ORDER.index(n["sym"]["type"]) + k])
    for tp in ps.get("tuplets", []):
        tp[4] = VALUE_ORDER[VALUE_ORDER.index(tp[4]) + k]
    if k > 0:
        f = 2 ** k
        for n in ps["notes"]:
            n["t"] *= f
            n["dur"] *= f
        ps["measures"] = [[m[0] * f, m[1] * f] + list(m[2:]) for m in ps["measures"]]
        ps["timesigs"] = [[t * f, b, bt // f] for (t, b, bt) in ps["timesigs"]]
        ps["keysigs"] = [[x[0] * f] + list(x[1:]) for x in ps["keysigs"]]
        ps["clefs"] = [[x[0] * f] + list(x[1:]) for x in ps.get("clefs", [])]
        ps["end"] *= f
        if ps.get("pickup") is not None:
            ps["pickup"] *= f
    else:
        f = 2 ** (-k)
        ps["divs"] = [[t, d * f] for (t, d) in ps["divs"]]
        ps["timesigs"] = [[t, b, bt * f] for (t, b, bt) in ps["timesigs"]]
    return ps, k


def shift_octaves(ps, shift):
    """All pitches `shift` octaves higher (the generator draws octaves 2..6; kern and MEI write any octave)."""
    if not shift:
        return ps
    import copy as _copy

    ps = _copy.deepcopy(ps)
    for n in ps["notes"]:
        if n.get("octave") is not None:
            n["octave"] = n["octave"] + shift
    return ps


class Unrenderable(Exception):
    pass


class Model(object):
    """Events per voice and bar.

    Attributes
    ----------
    d : int                      divisions per quarter of the abstract timeline
    bars : list of [start, end, index]
    timesigs : list of [t, beats, beat_type]   (t is a bar start)
    keysigs : list of [t, fifths, mode]
    voices : list of voice numbers present
    vb : dict voice -> list over bars of (list of events | None)
    ties : list of (note id, note id)
    """

    def __init__(self, ps, cut=0, split_double_dots=False, flatten_tuplets=False):
        ps = copy.deepcopy(ps)
        if len(ps["divs"]) != 1:
            raise Unrenderable("division change")
        self.d = int(ps["divs"][0][1])
        self.bars = [[int(m[0]), int(m[1]), i] for i, m in enumerate(ps["measures"])]
        self.timesigs = [[int(t), int(b), int(bt)] for t, b, bt in sorted(ps["timesigs"])]
        self.keysigs = [[int(t), int(f), m] for t, f, m in sorted(ps["keysigs"], key=lambda x: x[0])]
        self.pickup = None
        self._filler = 0
        notes = ps["notes"]
        byvoice = {}
        pending = {}
        for n in notes:
            v = n["voice"]
            if n.get("sym") is None:
                raise Unrenderable("event without notated value")
            if n["kind"] == "grace":
                pending.setdefault(v, []).append(n)
                continue
            evs = byvoice.setdefault(v, [])
            if n["kind"] == "note" and evs and evs[-1]["t"] == n["t"] and evs[-1]["kind"] in ("note", "chord"):
                evs[-1]["notes"].append(n)
                evs[-1]["kind"] = "chord"
                continue
            ev = {"t": n["t"], "dur": n["dur"], "sym": dict(n["sym"]), "kind": n["kind"], "id": n["id"],
                  "notes": [n] if n["kind"] == "note" else [], "graces": pending.pop(v, []), "tup": None, "filler": False}
            evs.append(ev)
        if split_double_dots:
            # X.. -> X. tied to the value two levels shorter (same sounding length, no double dot in the notation)
            for v, evs in byvoice.items():
                out = []
                for e in evs:
                    if (e["sym"].get("dots") or 0) != 2 or e["tup"] is not None:
                        out.append(e)
                        continue
                    if e["sym"]["type"] not in SHORTER2:
                        raise Unrenderable("double dotted value without a value two levels shorter")
                    short = SHORTER2[e["sym"]["type"]]
                    d2 = e["dur"] // 7
                    if d2 * 7 != e["dur"]:
                        raise Unrenderable("double dotted length")
                    e2 = {"t": e["t"] + 6 * d2, "dur": d2, "sym": {"type": short}, "kind": e["kind"], "id": e["id"] + "b", "notes": [], "graces": [],
                          "tup": None, "filler": False}
                    e["dur"] = 6 * d2
                    e["sym"] = {"type": e["sym"]["type"], "dots": 1}
                    for n in e["notes"]:
                        n["dur"] = e["dur"]
                        n["sym"] = dict(e["sym"])
                        n2 = dict(n, id=n["id"] + "b", t=e2["t"], dur=d2, sym={"type": short})
                        n2.pop("tie_prev", None)
                        if n.get("tie_next"):
                            n2["tie_next"] = n["tie_next"]
                        n["tie_next"] = n2["id"]
                        n2["tie_prev"] = n["id"]
                        e2["notes"].append(n2)
                    out.extend([e, e2])
                byvoice[v] = out
            back = {}
            for v, evs in byvoice.items():
                for e in evs:
                    for n in e["notes"]:
                        if n.get("tie_next"):
                            back[n["tie_next"]] = n["id"]
            for v, evs in byvoice.items():
                for e in evs:
                    for n in e["notes"]:
                        if n["id"] in back:
                            n["tie_prev"] = back[n["id"]]
        # tuplet groups: the generator emits a group of `actual_notes` equal events at once
        for v, evs in byvoice.items():
            i = 0
            gid = 0
            while i < len(evs):
                sym = evs[i]["sym"]
                a = sym.get("actual_notes")
                if a:
                    gid += 1
                    for k in range(a):
                        e = evs[i + k]
                        if e["sym"].get("actual_notes") != a:
                            raise Unrenderable("broken tuplet group")
                        e["tup"] = [gid, k, a, sym["normal_notes"], sym["type"]]
                    i += a
                else:
                    i += 1
        if flatten_tuplets:
            # a tuplet group becomes one plain event of the group's total length (normal_notes is 2 or 4)
            dropped = set()
            for v, evs in byvoice.items():
                out = []
                for e in evs:
                    if e["tup"] is None:
                        out.append(e)
                        continue
                    gid, k, a, nn, ty = e["tup"]
                    if k == 0:
                        order = VALUE_ORDER
                        up = {2: 1, 4: 2}[nn]
                        e["sym"] = {"type": order[order.index(ty) + up]}
                        e["dur"] = e["dur"] * a
                        e["tup"] = None
                        for n in e["notes"]:
                            n["dur"] = e["dur"]
                            n["sym"] = dict(e["sym"])
                        out.append(e)
                    else:
                        for n in e["notes"] + e["graces"]:
                            dropped.add(n["id"])
                byvoice[v] = out
            for v, evs in byvoice.items():
                for e in evs:
                    for n in e["notes"]:
                        if n.get("tie_next") in dropped:
                            del n["tie_next"]
                        if n.get("tie_prev") in dropped:
                            del n["tie_prev"]
        self.voices = sorted(byvoice)
        # ---- optional anacrusis ---------------------------------------------------------
        b0s, b0e, _ = self.bars[0]
        if cut and len(self.bars) > 1:
            cand = None
            for v, evs in byvoice.items():
                inbar = [e for e in evs if b0s <= e["t"] < b0e]
                if not inbar:
                    continue
                bd = set(e["t"] for e in inbar if e["tup"] is None or e["tup"][1] == 0)
                cand = bd if cand is None else (cand & bd)
            cand = sorted(t for t in (cand or ()) if t > b0s)
            if cand:
                c = cand[(cut - 1) % len(cand)]
                self.pickup = b0e - c
                removed = set()
                for v in list(byvoice):
                    keep = []
                    for e in byvoice[v]:
                        if e["t"] < c:
                            for n in e["notes"] + e["graces"]:
                                removed.add(n["id"])
                        else:
                            keep.append(e)
                    byvoice[v] = keep
                for v in byvoice:
                    for e in byvoice[v]:
                        e["t"] -= c
                        for n in e["notes"] + e["graces"]:
                            n["t"] -= c
                            if n.get("tie_prev") in removed:
                                del n["tie_prev"]
                self.bars = [[max(0, s - c), e - c, i] for s, e, i in self.bars]
                self.timesigs = [[max(0, t - c), b, bt] for t, b, bt in self.timesigs]
                self.keysigs = [[max(0, t - c), f, m] for t, f, m in self.keysigs]
        self.end = self.bars[-1][1]
        # ---- per bar ----------------------------------------------------------------------
        self.vb = {}
        for v in self.voices:
            rows = []
            for (s, e, i) in self.bars:
                inbar = [x for x in byvoice[v] if s <= x["t"] < e]
                rows.append(inbar or None)
            self.vb[v] = rows
        self.voices = [v for v in self.voices if any(r is not None for r in self.vb[v])]
        self.ties = []
        ids = set()
        for v in self.voices:
            for row in self.vb[v]:
                for e in row or ():
                    for n in e["notes"] + e["graces"]:
                        ids.add(n["id"])
        for v in self.voices:
            for row in self.vb[v]:
                for e in row or ():
                    for n in e["notes"]:
                        if n.get("tie_next") and n["tie_next"] in ids:
                            self.ties.append((n["id"], n["tie_next"]))

    # -- helpers -------------------------------------------------------------------------
    def q(self, t):
        return Fraction(int(t), self.d)

    def ts_at(self, t):
        cur = self.timesigs[0]
        for r in self.timesigs:
            if r[0] <= t:
                cur = r
        return cur[1], cur[2]

    def bar_is_full(self, b):
        s, e, _ = self.bars[b]
        beats, bt = self.ts_at(s)
        return Fraction(e - s, self.d) == Fraction(4 * beats, bt)

    def first_bar(self, v):
        for b, row in enumerate(self.vb[v]):
            if row is not None:
                return b
        return None

    def complete_voice(self):
        """A voice present in every bar (the generator makes voice 1 so)."""
        for v in self.voices:
            if all(r is not None for r in self.vb[v]):
                return v
        raise Unrenderable("no complete voice")

    def filler(self, b, prefix="f"):
        """Rests with the rhythm of the complete voice in bar b (fresh ids)."""
        src = self.vb[self.complete_voice()][b]
        out = []
        for e in src:
            self._filler += 1
            out.append({"t": e["t"], "dur": e["dur"], "sym": dict(e["sym"]), "kind": "rest", "id": "%s%d" % (prefix, self._filler),
                        "notes": [], "graces": [], "tup": list(e["tup"]) if e["tup"] else None, "filler": True})
        return out

    def features(self):
        f = {"tuplet": False, "dotted": False, "tie": bool(self.ties), "grace": False, "chord": False, "rest": False}
        for v in self.voices:
            for row in self.vb[v]:
                for e in row or ():
                    f["tuplet"] |= e["tup"] is not None
                    f["dotted"] |= bool(e["sym"].get("dots"))
                    f["grace"] |= bool(e["graces"])
                    f["chord"] |= e["kind"] == "chord"
                    f["rest"] |= e["kind"] == "rest"
        return f


def recip(sym):
    """Humdrum reciprocal value and dots of a notated value with optional tuplet ratio (independent of partitura)."""
    r = Fraction(RECIP[sym["type"]])
    if sym.get("actual_notes"):
        r = r * Fraction(sym["actual_notes"], sym["normal_notes"])
    return r, int(sym.get("dots") or 0)


def sym_quarters(sym):
    """Quarter length denoted by note value, dots and tuplet ratio."""
    v = Fraction(4, RECIP[sym["type"]])
    dots = int(sym.get("dots") or 0)
    v = v * (2 - Fraction(1, 2 ** dots))
    if sym.get("actual_notes"):
        v = v * Fraction(sym["normal_notes"], sym["actual_notes"])
    return v


def to_partspec(model, staff_of, clefs=(), pid="P1", grace_type="grace"):
    """Part description for ``pbt.gen.build.build_part`` (used by the exporter round trips).

    staff_of: dict voice -> staff number; clefs: list of [t, staff, sign, line, octave_change].
    """
    notes, tuplets = [], []
    nxt = dict(model.ties)
    prv = {b: a for a, b in model.ties}
    for v in model.voices:
        open_t = None
        for row in model.vb[v]:
            for e in row or ():
                st_ = staff_of[v]
                for g in e["graces"]:
                    notes.append({"id": g["id"], "kind": "grace", "t": e["t"], "dur": 0, "step": g["step"], "alter": g["alter"], "octave": g["octave"],
                                  "voice": v, "staff": st_, "sym": dict(g["sym"]), "grace_type": grace_type})
                first_id = None
                if e["kind"] == "rest":
                    notes.append({"id": e["id"], "kind": "rest", "t": e["t"], "dur": e["dur"], "voice": v, "staff": st_, "sym": dict(e["sym"])})
                    first_id = e["id"]
                for n in e["notes"]:
                    d = {"id": n["id"], "kind": "note", "t": e["t"], "dur": e["dur"], "step": n["step"], "alter": n["alter"], "octave": n["octave"],
                         "voice": v, "staff": st_, "sym": dict(e["sym"])}
                    if n["id"] in nxt:
                        d["tie_next"] = nxt[n["id"]]
                    if n["id"] in prv:
                        d["tie_prev"] = prv[n["id"]]
                    notes.append(d)
                    first_id = first_id or n["id"]
                if e["tup"] is not None:
                    gid, k, a, nn, ty = e["tup"]
                    if k == 0:
                        open_t = [first_id, None, a, nn, ty]
                    if k == a - 1 and open_t is not None:
                        open_t[1] = first_id
                        tuplets.append(open_t)
                        open_t = None
    return {
        "id": pid, "name": None, "divs": [[0, model.d]],
        "measures": [[s, e, i + 1, str(i + 1)] for s, e, i in model.bars],
        "timesigs": [list(x) for x in model.timesigs], "keysigs": [list(x) for x in model.keysigs],
        "clefs": [list(c) for c in clefs], "notes": notes, "tuplets": tuplets, "end": model.end, "pickup": model.pickup,
    }
