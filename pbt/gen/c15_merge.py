"""C15 generator: several part specs that share one measure / time-signature structure in
musical time but live on different divisions, plus the container they are put in.

The first part comes from the shared ``scorespec.part_spec`` (profile without division changes).
The other parts are *derived*: the bar structure of the first part is rescaled to another
divisions value (chosen among the values that keep every bar line integral) and new notes,
key signatures and clefs are drawn for it (so that "taken from the first part only" is visible).
Everything is a JSON-serialisable spec; ``build`` creates fresh partitura objects for every call.
"""

from fractions import Fraction
from math import gcd

from hypothesis import strategies as st

import partitura.score as S
from pbt.gen import scorespec as G
from pbt.gen import build as B

DIVS = [1, 2, 3, 4, 5, 6, 7, 8, 10, 12, 16, 24]
MODES = ["voice", "staff", "auto"]
MULTI_CONTAINERS = ["list", "list-nested", "tuple", "group", "group-nested", "score", "score-nested"]
SINGLE_CONTAINERS = ["part", "list", "tuple", "group", "group-nested", "list-group", "score", "score-group"]
DIR_KINDS = ["words", "loud", "cresc", "dir", "pedal"]
# order-preserving renumberings of the generated voices 1..3: gaps, not starting at 1, starting at 0
VOICE_MAPS = [None, None, None, {1: 1, 2: 3, 3: 4}, {1: 2, 2: 3, 3: 5}, {1: 3, 2: 4, 3: 6}, {1: 0, 2: 1, 3: 2}, {1: 0, 2: 2, 3: 3}]
# renumberings of the generated staves 1..2: a third staff, a gap, a part that starts on staff 2 or 3
STAFF_MAPS = [None, None, None, None, {1: 1, 2: 3}, {1: 2, 2: 3}, {1: 3, 2: 1}]
BARLINE_STYLES = ["light-heavy", "light-light", "dashed", "heavy-light"]
EXTRA_STRUCTURAL = ("barline", "page", "system")


def lcm(values):
    out = 1
    for v in values:
        out = out * v // gcd(out, v)
    return out


def base_profile(tier):
    return G.profile(
        # merge_parts walks p.iter_all() without a class, which visits every subclass of `object` at every
        # time point (~10 ms per time point in this process): cases must have few time points
        max_bars=2 if tier == "quick" else 4,
        time_sigs=[(2, 4), (2, 4), (3, 8), (3, 4), (6, 8), (4, 4), (5, 8), (2, 2), (3, 2)],
        max_voices=3,
        max_staves=2,
        div_changes=False,
        midbar_changes=False,
        irregular=False,
        divs_choices=DIVS,
        missing_voice_staff=False,  # done here, per part, so that whole parts without staff occur
        unique_pitch_per_time=False,
    )


def divisions_fitting(base, choices):
    """Divisions values for which every bar line of ``base`` stays on an integer position."""
    d0 = base["divs"][0][1]
    bounds = sorted(set([m[0] for m in base["measures"]] + [m[1] for m in base["measures"]]))
    return [d for d in choices if all((Fraction(t, d0) * d).denominator == 1 for t in bounds)]


@st.composite
def _voices(draw, segments, nstaves, nvoices, prof, prefix):
    """Notes for ``nvoices`` voices over the bar segments [(start, length, divs, bar index)]."""
    notes, tuplets = [], []
    counter = [0]
    nbars = len(segments)

    def nid():
        counter[0] += 1
        return "%s%d" % (prefix, counter[0])

    for v in range(1, nvoices + 1):
        staff = draw(st.integers(1, nstaves))
        first_bar = 0 if v == 1 else draw(st.integers(0, nbars - 1))
        prev_notes, prev_end, open_tuplet = None, None, None
        for (s0, L, dd, b) in segments:
            if b < first_bar:
                continue
            for ev in draw(G._fill_segment(s0, L, dd, prof)):
                if ev["slot"] == "rest":
                    cur = [{"id": nid(), "kind": "rest", "t": ev["t"], "dur": ev["dur"], "voice": v, "staff": staff, "sym": ev["sym"]}]
                    pitched = []
                else:
                    k = 1 if ev["slot"] == "note" else draw(st.integers(2, 3))
                    used, cur = set(), []
                    for _ in range(k):
                        step, alter, octave = draw(G._pitch(prof, v - 1, used))
                        used.add(G.midi_pitch(step, alter, octave))
                        cur.append({"id": nid(), "kind": "note", "t": ev["t"], "dur": ev["dur"], "step": step, "alter": alter,
                                    "octave": octave, "voice": v, "staff": staff, "sym": ev["sym"]})
                    pitched = cur
                    if prev_notes and prev_end == ev["t"] and draw(st.integers(0, 3)) == 0:
                        src, dst = prev_notes[0], cur[0]
                        if "tie_next" not in src and not any(
                            o is not dst and (o["step"], o["alter"], o["octave"]) == (src["step"], src["alter"], src["octave"]) for o in cur
                        ):
                            dst["step"], dst["alter"], dst["octave"] = src["step"], src["alter"], src["octave"]
                            src["tie_next"] = dst["id"]
                            dst["tie_prev"] = src["id"]
                    if draw(st.integers(0, 9)) == 0:
                        step, alter, octave = draw(G._pitch(prof, v - 1, used))
                        g = {"id": nid(), "kind": "grace", "t": ev["t"], "dur": 0, "step": step, "alter": alter, "octave": octave,
                             "voice": v, "staff": staff, "sym": {"type": "eighth"}, "grace_type": draw(st.sampled_from(["grace", "acciaccatura", "appoggiatura"])),
                             "grace_next": cur[0]["id"]}
                        notes.append(g)
                notes.extend(cur)
                if "tup" in ev:
                    gid, k, a, nn, ty = ev["tup"]
                    if k == 0:
                        open_tuplet = [cur[0]["id"], None, a, nn, ty]
                    if k == a - 1 and open_tuplet is not None:
                        open_tuplet[1] = cur[0]["id"]
                        tuplets.append(open_tuplet)
                        open_tuplet = None
                prev_notes = pitched or None
                prev_end = ev["t"] + ev["dur"]
    return notes, tuplets


@st.composite
def derived_part(draw, base, d, prof, pid, prefix):
    """A part with the bar structure of ``base`` on divisions ``d`` and its own content."""
    d0 = base["divs"][0][1]

    def sc(t):
        x = Fraction(t, d0) * d
        assert x.denominator == 1
        return int(x)

    measures = [[sc(m[0]), sc(m[1]), m[2], m[3]] for m in base["measures"]]
    timesigs = [[sc(t), b, bt] for (t, b, bt) in base["timesigs"]]
    bars = [m[0] for m in measures]
    keysigs, seen = [], set()
    for i in range(draw(st.integers(0, 2))):
        p = draw(st.sampled_from(bars))
        if p not in seen:
            seen.add(p)
            keysigs.append([p, draw(st.integers(-7, 7)), draw(st.sampled_from(["major", "minor", None]))])
    keysigs.sort(key=lambda x: x[0])
    nstaves = draw(st.integers(1, prof["max_staves"]))
    clefs, seen = [], set()
    for s in range(1, nstaves + 1):
        for i in range(draw(st.integers(0, 2))):
            p = 0 if i == 0 else draw(st.sampled_from(bars))
            if (p, s) not in seen:
                seen.add((p, s))
                sign, line = draw(st.sampled_from([("G", 2), ("F", 4), ("C", 3), ("C", 4)]))
                clefs.append([p, s, sign, line, draw(st.sampled_from([0, 0, 0, -1, 1]))])
    clefs.sort(key=lambda x: (x[0], x[1]))
    nvoices = draw(st.integers(1, prof["max_voices"]))
    segments = [(m[0], m[1] - m[0], d, i) for i, m in enumerate(measures)]
    notes, tuplets = draw(_voices(segments, nstaves, nvoices, prof, prefix))
    return {
        "id": pid,
        "name": draw(st.sampled_from([None, "Viola", "Cello"])),
        "divs": [[0, d]],
        "measures": measures,
        "timesigs": timesigs,
        "keysigs": keysigs,
        "clefs": clefs,
        "notes": notes,
        "tuplets": tuplets,
        "end": measures[-1][1],
        "pickup": None if base["pickup"] is None else sc(base["pickup"]),
    }


def pitched(ps):
    return [n for n in ps["notes"] if n["kind"] in ("note", "grace")]


def _to_note(n, octave=4):
    n["kind"] = "note"
    n["step"], n["alter"], n["octave"] = "C", 0, octave


def tidy_part(ps):
    """Make the part one on which every voice and every staff that is mentioned has a sounding
    note and every staff number is given (what the note-array based modes need)."""
    for n in ps["notes"]:
        if n.get("staff") is None:
            n["staff"] = 1
    have = set(n["voice"] for n in ps["notes"] if n["kind"] in ("note", "grace"))
    for n in ps["notes"]:
        if n["kind"] == "rest" and n["voice"] not in have:
            _to_note(n, 3)
            have.add(n["voice"])
    staves = set(n["staff"] for n in ps["notes"] if n["kind"] in ("note", "grace"))
    ps["clefs"] = [c for c in ps["clefs"] if c[1] in staves]
    for d in ps.get("c15_dirs", []):
        if d[4] not in staves:
            d[4] = min(staves)


def silence_part(ps):
    """All notes become rests (a tacet part)."""
    out = []
    for n in ps["notes"]:
        if n["kind"] == "grace":
            continue
        n = {k: v for k, v in n.items() if k not in ("step", "alter", "octave", "tie_next", "tie_prev", "grace_next")}
        n["kind"] = "rest"
        out.append(n)
    ps["notes"] = out
    ps["tuplets"] = []
    ps["slurs"] = []
    ps["c15_extra"] = [x for x in ps.get("c15_extra", []) if x[0] != "beam"]


def empty_part(ps):
    """No note and no rest at all (a part that only has its bars, signatures, clefs and directions)."""
    silence_part(ps)
    ps["notes"] = []


@st.composite
def _decorate(draw, ps, staffless):
    """Missing staves, directions and a slur for one part (in place)."""
    # voice numbers with gaps / not starting at 1 (e.g. {1, 3} or {2}): an order-preserving renumbering
    vmap = draw(st.sampled_from(VOICE_MAPS))
    if vmap is not None:
        for n in ps["notes"]:
            if n.get("voice") is not None:
                n["voice"] = vmap.get(n["voice"], n["voice"])
    # more voices than the generator's three (up to seven in one part, so also more than four on one
    # staff): extra notes in new voices, placed on existing time points (merge_parts is slow per time point)
    if draw(st.sampled_from([False, False, False, True])):
        src = [n for n in ps["notes"] if n["kind"] == "note" and not n.get("tie_next") and not n.get("tie_prev")]
        if src:
            top = max(n["voice"] for n in ps["notes"])
            for j in range(draw(st.sampled_from([1, 2, 3, 4, 4]))):
                a = draw(st.sampled_from(src))
                step, alter, octave = draw(G._pitch(G.profile(), j, set()))
                ps["notes"].append({"id": "%s-v%d" % (a["id"], j), "kind": "note", "t": a["t"], "dur": a["dur"], "step": step, "alter": alter,
                                    "octave": octave, "voice": top + 1 + j, "staff": a["staff"], "sym": a.get("sym")})
    smap = draw(st.sampled_from(STAFF_MAPS))
    if smap is not None:
        for n in ps["notes"]:
            if n.get("staff") is not None:
                n["staff"] = smap.get(n["staff"], n["staff"])
        for c in ps["clefs"]:
            c[1] = smap.get(c[1], c[1])
    if staffless == "all":
        for n in ps["notes"]:
            n["staff"] = None
    elif staffless == "some":
        for n in ps["notes"]:
            if draw(st.integers(0, 3)) == 0:
                n["staff"] = None
    staves_present = sorted(set([n["staff"] or 1 for n in ps["notes"]] + [c[1] for c in ps["clefs"]] + [1]))
    dirs = []
    times = sorted(set(n["t"] for n in ps["notes"]))
    for _ in range(draw(st.integers(0, 2))):
        t = draw(st.sampled_from(times))
        kind = draw(st.sampled_from(DIR_KINDS))
        end = None
        if kind in ("cresc", "pedal"):
            later = [x for x in times if x > t] + [ps["end"]]
            end = draw(st.sampled_from(later))
        text = {"words": draw(st.sampled_from(["dolce", "arco"])), "loud": draw(st.sampled_from(["p", "f", "mf"])), "cresc": "crescendo", "dir": "espressivo",
                "pedal": "sustain_pedal"}[kind]
        staff = draw(st.sampled_from([None] + staves_present))
        dirs.append([t, end, kind, text, staff])
    ps["c15_dirs"] = dirs
    slurs = []
    if draw(st.integers(0, 2)) == 0:
        cand = [n for n in ps["notes"] if n["kind"] == "note"]
        if len(cand) >= 2:
            i = draw(st.integers(0, len(cand) - 2))
            a = cand[i]
            same = [n for n in cand[i + 1:] if n["voice"] == a["voice"] and n["t"] > a["t"]]
            if same:
                slurs.append([a["id"], draw(st.sampled_from(same))["id"]])
    ps["slurs"] = slurs
    # further elements: the structural classes the documentation lists besides measures and signatures
    # (Barline, Page, System: first part only) and non-structural ones (chord symbol, cadence, octave
    # shift, beam: every part); all on existing time points
    extra = []
    bars = [m[0] for m in ps["measures"]]
    for _ in range(draw(st.sampled_from([0, 0, 1, 2, 3]))):
        kind = draw(st.sampled_from(["barline", "barline", "page", "system", "chordsymbol", "cadence", "octaveshift", "beam"]))
        if kind == "barline":
            extra.append([kind, draw(st.sampled_from(bars + [ps["end"]])), None, draw(st.sampled_from(BARLINE_STYLES)), None])
        elif kind in ("page", "system"):
            extra.append([kind, draw(st.sampled_from(bars)), ps["end"], draw(st.integers(1, 3)), None])
        elif kind == "chordsymbol":
            extra.append([kind, draw(st.sampled_from(times)), None, draw(st.sampled_from(["C", "F#", "Bb"])), draw(st.sampled_from(["major", "minor-seventh", ""]))])
        elif kind == "cadence":
            extra.append([kind, draw(st.sampled_from(times)), None, draw(st.sampled_from(["PAC", "IAC", "HC"])), None])
        elif kind == "octaveshift":
            t = draw(st.sampled_from(times))
            extra.append([kind, t, draw(st.sampled_from([x for x in times if x > t] + [ps["end"]])), draw(st.sampled_from(["up", "down"])), draw(st.sampled_from([8, 15]))])
        else:
            cand = [n for n in ps["notes"] if n["kind"] == "note"]
            a = draw(st.sampled_from(cand)) if cand else None
            same = [n for n in cand if n["voice"] == a["voice"] and n["t"] == a["t"] + a["dur"]] if a else []
            if same:
                extra.append([kind, a["t"], same[0]["t"] + same[0]["dur"], [a["id"], same[0]["id"]], None])
    ps["c15_extra"] = extra


def _nest(draw, idx):
    """A structure tree (ints and {"children": [...]} nodes) whose depth-first order is ``idx``."""
    out, i = [], 0
    while i < len(idx):
        run = draw(st.integers(1, len(idx) - i))
        chunk = idx[i:i + run]
        i += run
        if draw(st.booleans()):
            node = {"symbol": draw(st.sampled_from([None, "brace", "bracket"])), "name": None, "number": len(out) + 1, "children": list(chunk)}
            if len(chunk) >= 2 and draw(st.booleans()):
                k = draw(st.integers(1, len(chunk) - 1))
                node["children"] = list(chunk[:k]) + [{"symbol": "brace", "name": "inner", "number": 9, "children": list(chunk[k:])}]
            out.append(node)
        else:
            out.extend(chunk)
    return out


@st.composite
def structure(draw, container, n):
    idx = list(range(n))
    if container in ("list", "tuple", "score"):
        return None
    if container == "group":
        return [{"symbol": "bracket", "name": "all", "number": 1, "children": idx}]
    if container == "group-nested":
        return [{"symbol": "bracket", "name": "all", "number": 1, "children": _nest(draw, idx)}]
    return _nest(draw, idx)  # list-nested, score-nested


@st.composite
def merge_spec(draw, tier):
    prof = base_profile(tier)
    n = draw(st.sampled_from([2, 2, 2, 3, 3, 4]))
    base = draw(G.part_spec(prof, pid="P0", note_prefix="a"))
    cand = divisions_fitting(base, DIVS)
    d0 = base["divs"][0][1]
    pattern = draw(st.sampled_from(["equal", "different", "different", "different"]))
    parts = [base]
    for k in range(1, n):
        d = d0 if pattern == "equal" else draw(st.sampled_from(cand))
        parts.append(draw(derived_part(base, d, prof, "P%d" % k, "abcd"[k] + "x")))
    # nothing requires part ids to be unique (parts built one by one, or taken from different
    # scores, commonly share one): a fifth of the cases repeat an id
    if draw(st.integers(0, 3)) == 0:
        sure = draw(st.integers(1, n - 1))
        for k in range(1, n):
            if k == sure or draw(st.booleans()):
                parts[k]["id"] = parts[draw(st.integers(0, k - 1))]["id"]
    reassign = draw(st.sampled_from(MODES))
    # auto mode can only be judged on "tidy" parts (see tidy_part): make those the majority there
    tidy = draw(st.sampled_from([True, True, True, False])) if reassign == "auto" else draw(st.booleans())
    for ps in parts:
        staffless = "none" if tidy else draw(st.sampled_from(["none", "none", "none", "some", "some", "all"]))
        draw(_decorate(ps, staffless))
    silent = None
    if not tidy and draw(st.integers(0, 11)) == 0:
        silent = draw(st.sampled_from(list(range(n))))
        if draw(st.integers(0, 2)) == 0:
            empty_part(parts[silent])
        else:
            silence_part(parts[silent])
    # the bars of the later parts lie at the same musical times but need not carry the same numbers / names
    if draw(st.integers(0, 2)) == 0:
        for k in range(1, n):
            off = draw(st.sampled_from([1, 10, 100]))
            for m in parts[k]["measures"]:
                m[2] = m[2] + off
                m[3] = "p%d-%s" % (k, m[2])
    # a restated (redundant) divisions value somewhere in a part: still one divisions value
    for ps in parts:
        if draw(st.integers(0, 5)) == 0:
            ps["c15_restate_divs"] = draw(st.sampled_from([m[0] for m in ps["measures"]] + [ps["end"]]))
    for k, ps in enumerate(parts):
        if k != silent and not any(x["kind"] == "note" for x in ps["notes"]):
            rests = [x for x in ps["notes"] if x["kind"] == "rest"]
            _to_note(rests[0])
            ps["c15_extra"] = [x for x in ps.get("c15_extra", []) if x[0] != "beam"]
        if tidy:
            tidy_part(ps)
    container = draw(st.sampled_from(MULTI_CONTAINERS))
    return {
        "parts": parts,
        "container": container,
        "groups": draw(structure(container, n)),
        "reassign": reassign,
        # how the mode is passed: by keyword, by position, or (voice is the documented default) not at all
        "reassign_arg": draw(st.sampled_from(["keyword", "keyword", "positional"] + (["default", "default"] if reassign == "voice" else []))),
    }


def call_args(spec):
    """(args, kwargs) after the container for merge_parts."""
    how = spec.get("reassign_arg", "keyword")
    if how == "default":
        return (), {}
    if how == "positional":
        return (spec["reassign"],), {}
    return (), {"reassign": spec["reassign"]}


@st.composite
def single_spec(draw, tier):
    prof = base_profile(tier)
    ps = draw(G.part_spec(prof, pid="P0", note_prefix="a"))
    draw(_decorate(ps, draw(st.sampled_from(["none", "some", "all"]))))
    return {"parts": [ps], "container": draw(st.sampled_from(SINGLE_CONTAINERS)), "groups": None, "reassign": draw(st.sampled_from(MODES))}


@st.composite
def file_spec(draw, tier):
    """Score to be written to a file and read back with load_score_as_part: one part, or a merge case with
    unique part ids (they name the parts in the file), every staff number given and at least one note per part."""
    if draw(st.integers(0, 5)) == 0:
        spec = draw(single_spec(tier))
    else:
        spec = draw(merge_spec(tier))
    for k, ps in enumerate(spec["parts"]):
        ps["id"] = "P%d" % k
        if not any(x["kind"] == "note" for x in ps["notes"]):
            ps["notes"].append({"id": "fill%d" % k, "kind": "note", "t": 0, "dur": ps["measures"][0][1], "step": "C", "alter": 0, "octave": 4,
                                "voice": 1, "staff": 1, "sym": None})
        tidy_part(ps)
    return {"parts": spec["parts"], "groups": spec["groups"] if spec["container"].endswith("nested") or spec["container"].startswith("group") else None,
            "alias": draw(st.booleans())}


# --------------------------------------------------------------------------
# building live objects (fresh for every call: merge_parts consumes its input)
# --------------------------------------------------------------------------
DIR_CLASS = {
    "words": lambda text, staff: S.Words(text, staff=staff),
    "loud": lambda text, staff: S.ConstantLoudnessDirection(text, staff=staff),
    "cresc": lambda text, staff: S.IncreasingLoudnessDirection(text, staff=staff),
    "dir": lambda text, staff: S.Direction(text, staff=staff),
}
DIR_CLASS["pedal"] = lambda text, staff: S.SustainPedalDirection(staff=staff, line=True)
DIR_NAME = {"words": "Words", "loud": "ConstantLoudnessDirection", "cresc": "IncreasingLoudnessDirection", "dir": "Direction",
            "pedal": "SustainPedalDirection"}
EXTRA_NAME = {"barline": "Barline", "page": "Page", "system": "System", "chordsymbol": "ChordSymbol", "cadence": "Cadence",
              "octaveshift": "OctaveShiftDirection", "beam": "Beam"}


def add_extra(part, objs, x):
    kind, t, end, a, b = x
    if kind == "barline":
        part.add(S.Barline(a), t)
    elif kind == "page":
        part.add(S.Page(a), t, end)
    elif kind == "system":
        part.add(S.System(a), t, end)
    elif kind == "chordsymbol":
        part.add(S.ChordSymbol(a, b), t)
    elif kind == "cadence":
        part.add(S.Cadence(a), t)
    elif kind == "octaveshift":
        part.add(S.OctaveShiftDirection(a, b), t, end)
    elif kind == "beam":
        # as the MusicXML importer does: the beam is added at its start, the notes are appended afterwards
        beam = S.Beam(id="beam-" + a[0])
        part.add(beam, t)
        for nid in a:
            beam.append(objs[nid])
    else:
        raise ValueError(kind)


def extra_key(obj):
    """What identifies an extra element in a merged part (class, content, start, end)."""
    name = type(obj).__name__
    end = -1 if obj.end is None else obj.end.t
    if name == "Barline":
        content = obj.style
    elif name in ("Page", "System"):
        content = obj.number
    elif name == "ChordSymbol":
        content = (obj.root, obj.kind)
    elif name == "Cadence":
        content = obj.text
    elif name == "OctaveShiftDirection":
        content = (obj.shift_type, obj.shift_size)
    elif name == "Beam":
        content = tuple(n.id for n in obj.notes)
    else:
        content = None
    return (name, content, obj.start.t, end)


def _group(children, symbol="bracket"):
    g = S.PartGroup(group_symbol=symbol, group_name="g")
    g.children = list(children)
    for c in g.children:
        c.parent = g
    return g


def build(spec):
    """Return (container, parts in depth-first order)."""
    kind = spec["container"]
    score, parts, objs = B.build_score({"parts": spec["parts"], "groups": spec.get("groups")})
    for ps, part, ob in zip(spec["parts"], parts, objs):
        for (t, end, k, text, staff) in ps.get("c15_dirs", []):
            part.add(DIR_CLASS[k](text, staff), t, end)
        for x in ps.get("c15_extra", []):
            add_extra(part, ob, x)
        if ps.get("c15_restate_divs") is not None:
            part.set_quarter_duration(ps["c15_restate_divs"], ps["divs"][0][1])
    single = len(parts) == 1
    if kind.startswith("score") and not (single and kind == "score-group"):
        return score, parts
    if single:
        p = parts[0]
        if kind == "part":
            return p, parts
        if kind == "list":
            return [p], parts
        if kind == "tuple":
            return (p,), parts
        if kind == "group":
            return _group([p]), parts
        if kind == "group-nested":
            return _group([_group([p], "brace")]), parts
        if kind == "list-group":
            return [_group([p])], parts
        if kind == "score-group":
            return S.Score([_group([p])], id="score"), parts
        raise ValueError(kind)
    st_ = score.part_structure
    if kind in ("group", "group-nested"):
        return st_[0], parts
    if kind == "tuple":
        return tuple(st_), parts
    return list(st_), parts
