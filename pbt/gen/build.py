"""Build partitura objects from a ScoreSpec through the public score API only."""

import partitura.score as S


def build_part(spec, with_end_times=True, div_order=None):
    """Return (part, {note id: object}).

    div_order : optional list of ints; when given, the division changes are applied in the
    order of these keys (set_quarter_duration documents that calls may come in any order).
    """
    divs = spec["divs"]
    part = S.Part(spec["id"], part_name=spec.get("name"), quarter_duration=divs[0][1])
    if spec.get("abbr"):
        part.part_abbreviation = spec["abbr"]
    changes = list(divs[1:])
    if div_order:
        keyed = sorted(range(len(changes)), key=lambda i: (div_order[i % len(div_order)], i))
        changes = [changes[i] for i in keyed]
    for t, d in changes:
        part.set_quarter_duration(t, d)
    for (s, e, num, name) in spec["measures"]:
        part.add(S.Measure(number=num, name=name), s, e)
    for (t, b, bt) in spec["timesigs"]:
        part.add(S.TimeSignature(b, bt), t)
    for (t, f, mode) in spec.get("keysigs", []):
        part.add(S.KeySignature(f, mode), t)
    for (t, staff, sign, line, oc) in spec.get("clefs", []):
        part.add(S.Clef(staff, sign, line, oc), t)
    objs = {}
    for n in spec["notes"]:
        kw = dict(id=n["id"], voice=n.get("voice"), staff=n.get("staff"))
        if n.get("sym") is not None:
            kw["symbolic_duration"] = dict(n["sym"])
        if n.get("art"):
            kw["articulations"] = list(n["art"])
        if n.get("stem"):
            kw["stem_direction"] = n["stem"]
        kind = n["kind"]
        if kind == "note":
            o = S.Note(step=n["step"], octave=n["octave"], alter=n["alter"], **kw)
        elif kind == "grace":
            o = S.GraceNote(n.get("grace_type", "grace"), step=n["step"], octave=n["octave"], alter=n["alter"], **kw)
        elif kind == "rest":
            o = S.Rest(**kw)
        elif kind == "unpitched":
            o = S.UnpitchedNote(step=n["step"], octave=n["octave"], **kw)
        else:
            raise ValueError(kind)
        part.add(o, n["t"], n["t"] + n["dur"])
        objs[n["id"]] = o
    for n in spec["notes"]:
        if n.get("tie_next"):
            a, b = objs[n["id"]], objs[n["tie_next"]]
            a.tie_next = b
            b.tie_prev = a
        if n.get("grace_next"):
            a, b = objs[n["id"]], objs[n["grace_next"]]
            a.grace_next = b
            if isinstance(b, S.GraceNote):
                b.grace_prev = a
        if n.get("fermata"):
            f = S.Fermata(objs[n["id"]])
            part.add(f, n["t"])
            objs[n["id"]].fermata = f
    for (a, b) in spec.get("slurs", []):
        sl = S.Slur(objs[a], objs[b])
        part.add(sl, objs[a].start.t, objs[b].end.t)
    for (a, b, actual, normal, ty) in spec.get("tuplets", []):
        tp = S.Tuplet(objs[a], objs[b], actual_notes=actual, normal_notes=normal, actual_type=ty, normal_type=ty)
        part.add(tp, objs[a].start.t, objs[b].end.t)
    for (t, bpm, unit) in spec.get("tempos", []):
        part.add(S.Tempo(bpm, unit), t)
    if with_end_times:
        S.set_end_times([part])
    return part, objs


def build_score(sspec):
    """sspec = {"parts": [part specs], "groups": optional nesting}. Returns (score, [parts], [objs])."""
    parts, objs = [], []
    for ps in sspec["parts"]:
        p, o = build_part(ps)
        parts.append(p)
        objs.append(o)
    structure = _structure(sspec.get("groups"), parts)
    score = S.Score(partlist=structure, id=sspec.get("id", "score"))
    return score, parts, objs


def _structure(groups, parts):
    if not groups:
        return list(parts)
    out = []

    def rec(node):
        if isinstance(node, int):
            return parts[node]
        g = S.PartGroup(group_symbol=node.get("symbol"), group_name=node.get("name"), number=node.get("number"))
        g.children = [rec(c) for c in node["children"]]
        for c in g.children:
            c.parent = g
        return g

    for node in groups:
        out.append(rec(node))
    return out
