"""Core of the property-based checking framework (see DESIGN.md section 2).

A *property module* (pbt/props/cXX.py) exposes ``PROPERTY`` (id) and ``SUBCHECKS``
(list of :class:`SubCheck`).  Every sub-check has

* a Hypothesis strategy producing a JSON-serialisable *spec* (or a finite
  enumeration of specs),
* an oracle ``oracle(spec) -> Outcome`` that runs the code under test and returns
  *discrepancies* instead of asserting, so that the search can continue past
  known findings and enumerate root causes,
* ``known``: predicates for known findings, active only when the key is listed
  as an open ``finding:`` line in KNOWN_FINDINGS.txt.

The driver shards the work over processes, shrinks each new root cause with
Hypothesis, writes replay files, evidence and the verdict lines.
"""

import hashlib
import json
import multiprocessing as mp
import os
import sys
import time
import traceback
from collections import Counter
from fractions import Fraction

VERIF = os.path.dirname(os.path.dirname(os.path.abspath(__file__)))
REPO = os.environ.get("VERIF_REPO", "/repo")
REPO_PKG = os.path.join(os.path.realpath(REPO), "partitura") + os.sep
NSHARDS = int(os.environ.get("VERIF_SHARDS", "16"))
# mutation experiments redirect evidence and violation replays away from /verif
SCRATCH = os.environ.get("VERIF_SCRATCH") or None


# --------------------------------------------------------------------------
# data carried around
# --------------------------------------------------------------------------


class Disc(dict):
    """A discrepancy: ``kind`` (root-cause-ish label) and free-form ``detail``."""

    def __init__(self, kind, detail=None, **kw):
        super().__init__(kind=str(kind), detail=detail if detail is not None else kw)

    @property
    def kind(self):
        return self["kind"]


class Outcome(object):
    __slots__ = ("discs", "classes", "nontrivial", "excluded")

    def __init__(self, discs=None, classes=(), nontrivial=False, excluded=()):
        self.discs = list(discs or [])
        self.classes = list(classes)
        self.nontrivial = bool(nontrivial)
        # names of generated-but-not-judged situations (counted, see DESIGN 6)
        self.excluded = list(excluded)

    def add(self, kind, detail=None, **kw):
        self.discs.append(Disc(kind, detail, **kw))

    def cls(self, name, cond=True):
        if cond:
            self.classes.append(name)


class SutRaised(Exception):
    """Raised by :func:`call` when the code under test raised."""

    def __init__(self, kind, text):
        super().__init__(kind + ": " + text)
        self.kind = kind
        self.text = text


class HarnessError(Exception):
    pass


def _sut_frame(tb):
    """Innermost traceback frame that lies inside /repo/partitura, or None."""
    found = None
    for fs in traceback.extract_tb(tb):
        fn = os.path.realpath(fs.filename)
        if fn.startswith(REPO_PKG):
            found = (os.path.relpath(fn, REPO_PKG), fs.name)
    return found


def classify_exception(exc):
    """Return 'sut-raised:Type@file:func' if a partitura frame is involved."""
    fr = _sut_frame(exc.__traceback__)
    if fr is None:
        return None
    return "sut-raised:%s@%s:%s" % (type(exc).__name__, fr[0], fr[1])


def call(fn, *a, **k):
    """Call into the code under test; exceptions become :class:`SutRaised`.

    Oracles use this when they want to go on after the failure, e.g. to check
    that the object was not left half-updated.
    """
    try:
        return fn(*a, **k)
    except SutRaised:
        raise
    except RecursionError as e:
        kind = classify_exception(e) or "sut-raised:RecursionError@?"
        raise SutRaised(kind, "recursion") from None
    except Exception as e:  # noqa
        kind = classify_exception(e)
        if kind is None:
            # raised by a callee of ours without any partitura frame: still the
            # call into the SUT failed (e.g. numpy raising inside a lambda)
            kind = "sut-raised:%s@%s" % (type(e).__name__, getattr(fn, "__name__", "?"))
        raise SutRaised(kind, "%s: %s" % (type(e).__name__, str(e)[:300])) from None


# --------------------------------------------------------------------------
# JSON helpers for specs
# --------------------------------------------------------------------------


def fr(x):
    """Fraction from the JSON encodings used in specs ([n, d], 'n/d', int)."""
    if isinstance(x, Fraction):
        return x
    if isinstance(x, (list, tuple)):
        return Fraction(int(x[0]), int(x[1]))
    if isinstance(x, str):
        return Fraction(x)
    return Fraction(x)


def unfr(x):
    x = Fraction(x)
    return [x.numerator, x.denominator]


def _json_default(o):
    import numpy as np

    if isinstance(o, Fraction):
        return [o.numerator, o.denominator]
    if isinstance(o, (np.integer,)):
        return int(o)
    if isinstance(o, (np.floating,)):
        return float(o)
    if isinstance(o, np.ndarray):
        return o.tolist()
    if isinstance(o, (set, frozenset)):
        return sorted(o, key=repr)
    if isinstance(o, bytes):
        return o.hex()
    if isinstance(o, tuple):
        return list(o)
    return repr(o)


def dumps(o, **k):
    return json.dumps(o, default=_json_default, sort_keys=True, **k)


def spec_hash(spec):
    return hashlib.sha256(dumps(spec).encode()).digest()[:8]


def derive_seed(*parts):
    h = hashlib.sha256("|".join(str(p) for p in parts).encode()).digest()
    return int.from_bytes(h[:8], "big")


def abbreviate(o, maxlen=1500):
    s = dumps(o)
    if len(s) <= maxlen:
        return json.loads(s)
    return {"abbreviated": s[:maxlen] + "...", "json_length": len(s)}


# --------------------------------------------------------------------------
# sub-check definition
# --------------------------------------------------------------------------


class SubCheck(object):
    """One executable statement of (part of) a property.

    Parameters
    ----------
    name : str
    oracle : callable(spec) -> Outcome
    strategy : callable(tier) -> hypothesis strategy (generated sub-check), or None
    enumerate : callable(tier) -> list of specs (exhaustive sub-check), or None
    budget : dict tier -> number of generated cases *per shard*
    rule : str, what makes a case non-trivial
    known : dict key -> predicate(spec, disc) -> bool
    floors : dict class -> minimal fraction of cases (generator health)
    time_budget : dict tier -> seconds per shard after which generation stops
    """

    def __init__(
        self,
        name,
        oracle,
        strategy=None,
        enumerate=None,
        budget=None,
        rule="",
        known=None,
        floors=None,
        time_budget=None,
        shards=None,
        max_buckets=8,
    ):
        self.name = name
        self.oracle = oracle
        self.strategy = strategy
        self.enumerate = enumerate
        self.budget = budget or {"quick": 100, "thorough": 2000}
        self.rule = rule
        self.known = known or {}
        self.floors = floors or {}
        self.time_budget = time_budget or {"quick": 75.0, "thorough": 1500.0}
        self.shards = shards
        self.max_buckets = max_buckets


def evaluate(sub, spec):
    """Run the oracle; SUT exceptions become discrepancies, others propagate."""
    try:
        out = sub.oracle(spec)
    except SutRaised as e:
        out = Outcome([Disc(e.kind, text=e.text)], classes=["oracle-aborted-by-sut-exception"])
    except RecursionError as e:
        kind = classify_exception(e)
        if kind is None:
            raise
        out = Outcome([Disc(kind, text="RecursionError")], classes=["oracle-aborted-by-sut-exception"])
    except Exception as e:  # noqa
        kind = classify_exception(e)
        if kind is None:
            raise
        out = Outcome(
            [Disc(kind, text="%s: %s" % (type(e).__name__, str(e)[:300]))],
            classes=["oracle-aborted-by-sut-exception"],
        )
    if out is None:
        out = Outcome()
    return out


# --------------------------------------------------------------------------
# known findings file
# --------------------------------------------------------------------------


def load_known_findings(path=None):
    """Parse KNOWN_FINDINGS.txt -> (open: {prop: {key: text}}, fixed: {prop: [text]})."""
    path = path or os.path.join(VERIF, "KNOWN_FINDINGS.txt")
    open_, fixed = {}, {}
    lines = []
    if os.path.exists(path):
        lines += open(path).read().splitlines()
    # per-property fragments written while a check is being developed; merged into the main file later
    fdir = os.path.join(VERIF, "findings.d")
    if os.path.isdir(fdir):
        for fn in sorted(os.listdir(fdir)):
            if fn.endswith(".txt"):
                lines += open(os.path.join(fdir, fn)).read().splitlines()
    for line in lines:
        line = line.strip()
        if not line or line.startswith("#"):
            continue
        if line.startswith("finding:"):
            body = line[len("finding:"):].strip()
            head, _, text = body.partition(" -- ")
            kv = dict(tok.split("=", 1) for tok in head.split() if "=" in tok)
            open_.setdefault(kv["property"], {})[kv["key"]] = text.strip()
        elif line.startswith("fixed:"):
            body = line[len("fixed:"):].strip()
            toks = body.split(None, 1)
            kv = dict(tok.split("=", 1) for tok in toks[:1] if "=" in tok)
            fixed.setdefault(kv.get("property", "?"), []).append(toks[1] if len(toks) > 1 else "")
    return open_, fixed


def match_known(sub, active_keys, spec, disc):
    for key in active_keys:
        pred = sub.known.get(key)
        if pred is None:
            continue
        try:
            if pred(spec, disc):
                return key
        except Exception:  # a predicate must never hide a failure
            continue
    return None


# --------------------------------------------------------------------------
# shard worker
# --------------------------------------------------------------------------


class _Target(Exception):
    pass


def _run_shard(args):
    (modname, subname, shard, nshards, tier, vseed, active_keys) = args
    import importlib
    import warnings

    warnings.simplefilter("ignore")
    sys.setrecursionlimit(3000)
    mod = importlib.import_module(modname)
    sub = [s for s in mod.SUBCHECKS if s.name == subname][0]
    t0 = time.time()
    res = {
        "sub": subname,
        "shard": shard,
        "evaluations": 0,
        "nontrivial": set(),
        "classes": Counter(),
        "excluded": Counter(),
        "known_hits": Counter(),
        "known_examples": {},
        "samples": [],
        "failures": [],  # (bucket, spec, [disc,...])
        "timed_out": False,
        "skipped_after_budget": 0,
        "harness_error": None,
        "exhaustive": False,
    }
    tbudget = sub.time_budget.get(tier, 1e9)
    suppressed = set()

    def account(spec, out, count=True):
        """Count a case; return discrepancies that are new (not known / suppressed)."""
        if count:
            res["evaluations"] += 1
            for c in set(out.classes):
                res["classes"][c] += 1
            for c in out.excluded:
                res["excluded"][c] += 1
            if out.nontrivial:
                h = spec_hash(spec)
                if h not in res["nontrivial"]:
                    res["nontrivial"].add(h)
                    if len(res["samples"]) < 2:
                        res["samples"].append(abbreviate(spec))
        fresh = []
        for d in out.discs:
            key = match_known(sub, active_keys, spec, d)
            if key is not None:
                if count:
                    res["known_hits"][key] += 1
                    if key not in res["known_examples"]:
                        res["known_examples"][key] = abbreviate(spec, 600)
                continue
            if d.kind in suppressed:
                continue
            fresh.append(d)
        return fresh

    try:
        if sub.enumerate is not None:
            items = sub.enumerate(tier)
            res["exhaustive"] = True
            for i in range(shard, len(items), nshards):
                spec = items[i]
                out = evaluate(sub, spec)
                fresh = account(spec, out)
                for d in fresh:
                    suppressed.add(d.kind)
                    res["failures"].append((d.kind, spec, [dict(d)]))
                    if len(res["failures"]) >= sub.max_buckets:
                        break
                if len(res["failures"]) >= sub.max_buckets:
                    res["exhaustive"] = False
                    break
        if sub.strategy is not None:
            _drive_hypothesis(sub, res, tier, shard, nshards, vseed, tbudget, t0, suppressed, account)
    except Exception:  # harness error
        res["harness_error"] = traceback.format_exc()
    res["wall"] = time.time() - t0
    res["nontrivial"] = list(res["nontrivial"])
    return res


def _drive_hypothesis(sub, res, tier, shard, nshards, vseed, tbudget, t0, suppressed, account):
    import hypothesis
    from hypothesis import HealthCheck, Phase, given, settings

    total = int(sub.budget.get(tier, 100))
    strat = sub.strategy(tier)
    shrink_cap = 40.0 if tier == "quick" else 240.0
    if os.environ.get("VERIF_SHRINK_CAP"):
        # sensitivity sweeps (tools/muttest.py --fast) only ask whether a violation is reported at all
        shrink_cap = float(os.environ["VERIF_SHRINK_CAP"])
    passes = 0
    while res["evaluations"] < total and len(res["failures"]) < sub.max_buckets:
        passes += 1
        remaining = total - res["evaluations"]
        state = {"target": None, "best": None, "t_fail": None, "seen": 0}

        def body(spec):
            now = time.time()
            if state["target"] is None and now - t0 > tbudget:
                res["timed_out"] = True
                res["skipped_after_budget"] += 1
                return
            if state["target"] is not None and now - state["t_fail"] > shrink_cap:
                return  # stop shrinking: everything "passes" from now on
            out = evaluate(sub, spec)
            shrinking = state["target"] is not None
            fresh = account(spec, out, count=not shrinking)
            if not fresh:
                return
            if state["target"] is None:
                state["target"] = fresh[0].kind
                state["t_fail"] = now
            mine = [d for d in fresh if d.kind == state["target"]]
            if not mine:
                return
            size = len(dumps(spec))
            if state["best"] is None or size <= state["best"][0]:
                state["best"] = (size, spec, [dict(d) for d in mine])
            raise _Target(state["target"])

        seed = derive_seed(vseed, sub.name, tier, shard, passes) % (2 ** 63)
        test = hypothesis.seed(seed)(
            settings(
                max_examples=remaining,
                database=None,
                deadline=None,
                derandomize=False,
                report_multiple_bugs=False,
                print_blob=False,
                phases=[Phase.generate, Phase.shrink],
                suppress_health_check=list(HealthCheck),
            )(given(strat)(body))
        )
        try:
            test()
        except _Target:
            pass
        except BaseException as e:  # Flaky etc. after a shrink cut-off, or harness error
            if state["best"] is None:
                if isinstance(e, (KeyboardInterrupt, SystemExit)):
                    raise
                raise
        if state["best"] is not None:
            _, spec, discs = state["best"]
            res["failures"].append((state["target"], spec, discs))
            suppressed.add(state["target"])
            continue
        break  # pass completed without a new failure


# --------------------------------------------------------------------------
# parent: run a property
# --------------------------------------------------------------------------


def _replay_dir(prop):
    return os.path.join(VERIF, "replays", prop)


def write_replay(prop, subname, bucket, spec, discs, tier, vseed, prefix="violation"):
    d = _replay_dir(prop) if SCRATCH is None else os.path.join(SCRATCH, "replays", prop)
    os.makedirs(d, exist_ok=True)
    h = hashlib.sha256((subname + "|" + bucket).encode()).hexdigest()[:10]
    path = os.path.join(d, "%s-%s.json" % (prefix, h))
    with open(path, "w") as f:
        f.write(
            dumps(
                {
                    "property": prop,
                    "check": subname,
                    "bucket": bucket,
                    "spec": spec,
                    "discrepancies": discs,
                    "tier": tier,
                    "seed": vseed,
                },
                indent=1,
            )
        )
    return os.path.relpath(path, VERIF)


def replay_file(mod, path, active_keys):
    """Run one replay file through its oracle. Returns (fresh discs, known hits, outcome)."""
    rec = json.load(open(path))
    sub = [s for s in mod.SUBCHECKS if s.name == rec["check"]]
    if not sub:
        raise HarnessError("replay %s names unknown sub-check %s" % (path, rec["check"]))
    sub = sub[0]
    out = evaluate(sub, rec["spec"])
    fresh, known = [], Counter()
    for d in out.discs:
        key = match_known(sub, active_keys, rec["spec"], d)
        if key is None:
            fresh.append(d)
        else:
            known[key] += 1
    return fresh, known, out


def run_property(modname, tier, vseed, only=None):
    import importlib
    import warnings

    warnings.simplefilter("ignore")
    t0 = time.time()
    mod = importlib.import_module(modname)
    prop = mod.PROPERTY
    open_findings, fixed = load_known_findings()
    active = open_findings.get(prop, {})
    active_keys = sorted(active)
    all_known = set()
    for s in mod.SUBCHECKS:
        all_known |= set(s.known)
    missing = [k for k in active_keys if k not in all_known]
    if missing:
        print("HARNESS-ERROR: known findings without predicate: %s" % missing)
        return 2

    violations = []  # (replay path, bucket)
    harness_errors = []
    known_hits = Counter()
    known_examples = {}

    # ---- replay pass --------------------------------------------------------
    replayed = 0
    rdir = _replay_dir(prop)
    finding_repro = {}
    if os.path.isdir(rdir):
        for fn in sorted(os.listdir(rdir)):
            if not fn.endswith(".json") or fn.startswith("violation-"):
                continue
            path = os.path.join(rdir, fn)
            try:
                fresh, known, out = replay_file(mod, path, active_keys)
            except Exception:
                harness_errors.append("replay %s: %s" % (fn, traceback.format_exc()))
                continue
            replayed += 1
            known_hits.update(known)
            if fn.startswith("finding-"):
                key = fn[len("finding-"):-len(".json")]
                finding_repro[key] = bool(known.get(key))
            if fresh:
                violations.append((os.path.relpath(path, VERIF), fresh[0].kind))

    # ---- generation pass ------------------------------------------------------
    subs = [s for s in mod.SUBCHECKS if only is None or s.name in only]
    tasks = []
    for s in subs:
        n = s.shards or NSHARDS
        for sh in range(n):
            tasks.append((modname, s.name, sh, n, tier, vseed, active_keys))
    ctx = mp.get_context("fork")
    nproc = min(NSHARDS, len(tasks)) or 1
    if nproc > 1:
        with ctx.Pool(nproc, maxtasksperchild=1) as pool:
            results = pool.map(_run_shard, tasks, chunksize=1)
    else:
        results = [_run_shard(t) for t in tasks]

    per_sub = {}
    for r in results:
        a = per_sub.setdefault(
            r["sub"],
            {
                "evaluations": 0,
                "nontrivial": set(),
                "classes": Counter(),
                "excluded": Counter(),
                "samples": [],
                "failures": {},
                "timed_out_shards": 0,
                "skipped_after_budget": 0,
                "exhaustive": True,
                "wall_max": 0.0,
            },
        )
        a["evaluations"] += r["evaluations"]
        a["nontrivial"] |= set(bytes(x) for x in r["nontrivial"])
        a["classes"].update(r["classes"])
        a["excluded"].update(r["excluded"])
        if len(a["samples"]) < 4:
            a["samples"].extend(r["samples"][: 4 - len(a["samples"])])
        a["timed_out_shards"] += 1 if r["timed_out"] else 0
        a["skipped_after_budget"] += r["skipped_after_budget"]
        a["exhaustive"] = a["exhaustive"] and r["exhaustive"]
        a["wall_max"] = max(a["wall_max"], r["wall"])
        known_hits.update(r["known_hits"])
        for k, v in r["known_examples"].items():
            known_examples.setdefault(k, v)
        if r["harness_error"]:
            harness_errors.append("%s shard %d: %s" % (r["sub"], r["shard"], r["harness_error"]))
        for bucket, spec, discs in r["failures"]:
            cur = a["failures"].get(bucket)
            if cur is None or len(dumps(spec)) < len(dumps(cur[0])):
                a["failures"][bucket] = (spec, discs)

    for sname, a in per_sub.items():
        for bucket, (spec, discs) in sorted(a["failures"].items()):
            path = write_replay(prop, sname, bucket, spec, discs, tier, vseed)
            violations.append((path, bucket))

    # ---- generator health -------------------------------------------------------
    health = []
    for s in subs:
        a = per_sub.get(s.name)
        if not a or a["evaluations"] == 0:
            if not harness_errors and not (a and a["failures"]):
                health.append("%s: no case evaluated" % s.name)
            continue
        if a["failures"]:
            continue  # campaign was cut short by failures; floors are meaningless
        for c, floor in s.floors.items():
            frac = a["classes"].get(c, 0) / float(a["evaluations"])
            if frac < floor and a["evaluations"] >= 200:
                health.append("%s: class %r at %.3f below floor %.3f" % (s.name, c, frac, floor))

    # ---- evidence -------------------------------------------------------------------
    wall = time.time() - t0
    evaluations = sum(a["evaluations"] for a in per_sub.values()) + replayed
    nontrivial = sum(len(a["nontrivial"]) for a in per_sub.values())
    samples = []
    for sname, a in per_sub.items():
        for sp in a["samples"][:2]:
            samples.append({"check": sname, "spec": sp})
    rule = " || ".join("%s: %s" % (s.name, s.rule) for s in subs)
    sub_ev = {}
    for sname, a in per_sub.items():
        sub_ev[sname] = {
            "evaluations": a["evaluations"],
            "distinct_nontrivial": len(a["nontrivial"]),
            "classes": dict(sorted(a["classes"].items())),
            "excluded_not_judged": dict(sorted(a["excluded"].items())),
            "exhaustive": bool(a["exhaustive"]) and any(s.name == sname and s.enumerate is not None and s.strategy is None for s in subs),
            "shards_stopped_by_time_budget": a["timed_out_shards"],
            "cases_skipped_after_time_budget": a["skipped_after_budget"],
            "max_shard_wall_s": round(a["wall_max"], 2),
            "new_root_causes": sorted(a["failures"]),
        }
    ev = {
        "property_id": prop,
        "tier": tier,
        "seed": int(vseed),
        "level": "exploration",
        "coverage": {
            "evaluations": int(evaluations),
            "distinct_nontrivial": int(nontrivial),
            "rule": rule,
            "samples": samples or [{"note": "no non-trivial sample recorded"}],
            "exhaustive": bool(sub_ev) and all(v["exhaustive"] for v in sub_ev.values()),
            "sub_checks": sub_ev,
            "replay_files_run": replayed,
            "known_finding_hits": dict(known_hits),
            "known_finding_examples": known_examples,
            "known_finding_replays_reproduce": finding_repro,
            "engines": getattr(mod, "ENGINES", ["hypothesis"]),
            "partitura_head": _repo_head(),
            "generator_health_problems": health,
            "harness_errors": len(harness_errors),
        },
        "assumptions": list(getattr(mod, "ASSUMPTIONS", [])),
        "wall_s": round(wall, 2),
        "violations": len(violations),
    }
    evdir = os.path.join(VERIF, "evidence") if SCRATCH is None else os.path.join(SCRATCH, "evidence")
    os.makedirs(evdir, exist_ok=True)
    evpath = os.path.join(evdir, prop + ".json")
    with open(evpath, "w") as f:
        f.write(dumps(ev, indent=1))
    _validate_evidence(evpath, harness_errors)

    # ---- verdict -----------------------------------------------------------------
    print(
        "%s %s seed=%s: %d evaluations, %d distinct non-trivial, %d replay files, %.1fs"
        % (prop, tier, vseed, evaluations, nontrivial, replayed, wall)
    )
    for sname, v in sub_ev.items():
        print(
            "  %-28s eval=%-8d nontrivial=%-7d%s%s"
            % (
                sname,
                v["evaluations"],
                v["distinct_nontrivial"],
                " exhaustive" if v["exhaustive"] else "",
                " (time budget hit in %d shards)" % v["shards_stopped_by_time_budget"]
                if v["shards_stopped_by_time_budget"]
                else "",
            )
        )
    for key in active_keys:
        print(
            "KNOWN-FINDING: property=%s %s: %s (hits this run: %d)"
            % (prop, key, active[key], known_hits.get(key, 0))
        )
    for path, bucket in violations:
        print("VIOLATION property=%s replay=%s  [%s]" % (prop, path, bucket))
    for h in health:
        print("HARNESS-ERROR: generator health: " + h)
    for h in harness_errors[:5]:
        print("HARNESS-ERROR: " + h)
    if violations:
        return 1
    if harness_errors or health:
        return 2
    return 0


def _repo_head():
    try:
        import subprocess

        return subprocess.check_output(
            ["git", "-C", REPO, "rev-parse", "--short", "HEAD"], stderr=subprocess.DEVNULL
        ).decode().strip()
    except Exception:
        return "unknown"


def _validate_evidence(path, harness_errors):
    try:
        import jsonschema
    except Exception:
        return
    schema_path = os.path.join(VERIF, "pbt", "EVIDENCE.schema.json")
    if not os.path.exists(schema_path):
        return
    try:
        jsonschema.validate(json.load(open(path)), json.load(open(schema_path)))
    except Exception as e:
        harness_errors.append("evidence does not validate: %s" % str(e)[:300])


def run_replay(modname, path):
    import importlib
    import warnings

    warnings.simplefilter("ignore")
    mod = importlib.import_module(modname)
    prop = mod.PROPERTY
    open_findings, _ = load_known_findings()
    active = open_findings.get(prop, {})
    fresh, known, out = replay_file(mod, path, sorted(active))
    for d in out.discs:
        print("discrepancy: %s" % dumps(d)[:1000])
    for k, n in known.items():
        print("KNOWN-FINDING: property=%s %s: %s (hits this run: %d)" % (prop, k, active[k], n))
    if fresh:
        print("VIOLATION property=%s replay=%s  [%s]" % (prop, os.path.relpath(os.path.abspath(path), VERIF), fresh[0].kind))
        return 1
    print("replay: no (new) discrepancy")
    return 0
