"""Command line: python -m pbt.run <Cxx> <quick|thorough> [sub ...] | <Cxx> --replay <file>"""
import os
import sys


def main(argv):
    if len(argv) < 2:
        print(__doc__)
        return 2
    prop = argv[0].upper()
    modname = "pbt.props." + prop.lower()
    from pbt import core

    if argv[1] == "--replay":
        try:
            return core.run_replay(modname, argv[2])
        except Exception:
            import traceback

            traceback.print_exc()
            return 2
    tier = argv[1]
    if tier not in ("quick", "thorough"):
        print("tier must be quick or thorough")
        return 2
    tier = os.environ.get("VERIF_TIER_OVERRIDE", tier)
    try:
        vseed = int(os.environ.get("VERIF_SEED", "1") or "1")
    except ValueError:
        vseed = 1
    only = argv[2:] or None
    try:
        return core.run_property(modname, tier, vseed, only)
    except Exception:
        import traceback

        traceback.print_exc()
        print("HARNESS-ERROR: run aborted")
        return 2


if __name__ == "__main__":
    sys.exit(main(sys.argv[1:]))
