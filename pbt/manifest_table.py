"""Single source for MANIFEST.json (tools/mkmanifest.py writes the JSON from this)."""

NOTES = (
    "Every check is `./check <Cxx> <tier>`: a replay pass over replays/<Cxx>/ followed by generated-input search "
    "(Hypothesis strategies / model-based operation histories / exhaustive enumeration) against explicit reference "
    "oracles, sharded over 16 processes, deterministic in (tree, tier, VERIF_SEED). exit 0 held, 1 VIOLATION, 2 harness error. "
    "Open findings are listed in KNOWN_FINDINGS.txt and printed as KNOWN-FINDING lines."
)

NOT_APPLICABLE = {}

CHECKS = {
    "C08": {
        "text": "Generated single-part scores (one divisions value; pickups, bar-line time/key signature changes, ties, grace notes, tuplets, chords, voices, staves, articulations) with performances built in the tick domain and arbitrary partial alignments (matches, deletions, insertions, ornaments, sustain/soft pedal streams, any ppq/mpq, assume_unfolded on/off, all container kinds) are written with save_match and read back with load_match(create_score=True); alignment multiset, performed notes (pitch, velocity, channel, exact ticks and seconds), pedal events, clock info lines, the reconstructed score (onset/duration in quarters and beats, spelling, ids, voice, staff, staccato/accent), measures and signature positions are compared with exact values from the abstract spec; the fixture match files and harness-written files with repeated/conflicting lines are loaded and compared with an independent line reader and the documented duplicate-id resolution. Exploration + exhaustive fixtures.",
        "design_ref": "DESIGN.md 4 C08",
        "note": "One divisions value; signatures on bar lines; first and last bar contain a note onset; every sounding note matched or deleted; fractions within the 1024 bound of FractionalSymbolicDuration; alignments with fewer than two matched onsets counted, not judged; 30 s watchdog turns a hang into a discrepancy.",
        "technique": "property-based testing (Hypothesis): round trip against an exact reference model + independent match-line reader",
    },
    "C18": {
        "text": "Across generated single-part scores (chords, voices, grace notes, ties, tuplets, pickups, signature changes), note-for-note performances (non-constant tempo, chord spread, arbitrary durations incl. < 75 ms and velocities) and alignments with deletions, insertions, ornaments and dangling ids in any order: decode_performance(encode_performance(...)) reproduces onsets up to one common shift, durations and velocities for all 5 tempo normalisations x 2 tempo-curve methods; to_matched_score and get_matched_notes return exactly the matches present on both sides ordered by (score onset, pitch), with beat columns compared to exact Fractions; get_time_maps_from_alignment interpolates the matched onsets (chords by their mean) in both directions and is linear in between. Exploration.",
        "design_ref": "DESIGN.md 4 C18",
        "note": "Mean onsets of successive score onsets strictly increase and every id occurs in at most one match; tolerances scale with the ratio of extreme local beat periods (float32 parameters); 'derivative' curve values are not judged, only invertibility; include_score_markings and callable tempo_smooth are not exercised.",
        "technique": "property-based testing (Hypothesis): encode/decode round trip + exact Fraction reference for the matched table and time maps",
    },
    "C19": {
        "text": "Abstract scores (up to 3 voices; anacrusis, tuplets, dots, chords, rests, ties, grace notes, meter and key changes) are rendered by the check's own MEI and **kern renderers over the encodings the readers understand (staffDef/scoreDef attributes or children, layers, beams, tuplets, spaces, mRest, <tie> elements, repeats, endings, ppq variants; several spines, *^ / *v splits, tandem interpretations, reciprocal and dotted values, ties, grace notes, bar line variants) and loaded through load_score: spelling, duration and onset in exact quarters, tie links, voices, staves, parts, measures, signatures/clefs in force and integral divisions are compared; save_mei / save_kern followed by load_score must preserve spelling, duration, onset and staff of every note; load_score dispatch is enumerated over every accepted extension. Exploration.",
        "design_ref": "DESIGN.md 4 C19",
        "note": "Only the subsets the importers document/understand are generated; kern part and voice numbering conventions as implemented; exporter domain restricted to parts the writers accept; atheris not used.",
        "technique": "property-based testing (Hypothesis): model-to-notation rendering with independent renderers and exact Fraction reference; enumeration for dispatch",
    },
    "C20": {
        "text": "Model-based histories on a generated score (1-3 parts, optional group and repeat) and a performance aligned to it: generated sequences of the read-only entry points named by the property (save_musicxml, save_score_midi in all modes, save_performance_midi, save_match, score/part note arrays and rest arrays with option subsets, compute_pianoroll, all time/signature/clef/measure maps, pretty, unfold_part_maximal/minimal, iter_unfolded_parts, estimate_spelling/voices/key, transpose, len/indexing, iterator creation and single steps, nested loops); after every step the identity fingerprint of score, performance and alignment (every time point, object, attribute and link) must equal the initial one, a repeated call must return an identical result, every live iterator must yield each part once in order, nested loops must visit every pair. Exploration.",
        "design_ref": "DESIGN.md 4 C20",
        "note": "Private caches (Part._number_of_staves, _quarter_map) and empty per-class listing buckets created by look-ups are not counted as modifications; estimators/piano roll are skipped for parts without notes and MIDI export for scores without notes (documented errors); one open finding shared with C09 (Segment objects left in the part by unfolding / save_match).",
        "technique": "property-based testing (Hypothesis): stateful/model-based operation histories with an identity-fingerprint invariant after every step",
    },
    "C01": {
        "text": "Model-based testing of edit/query histories: generated sequences of add (start, end, both), complete, remove (start/end/both), set_quarter_duration, get_or_add_point and every query (iter_all with cls/start/end/include_subclasses/mode, iter_prev/iter_next, get_point, quarter_durations) over 55 timed-object classes are applied in lock-step to a Part and to a dict-based reference timeline; the complete structural invariant (ordering, links, listings, start/end identity, quarter in force, quarter map) is evaluated after every step, also after an exception. Exploration: thousands of shrunk-on-failure histories, no exhaustiveness claim.",
        "design_ref": "DESIGN.md 4 C01",
        "note": "Histories only add an object at an endpoint it does not occupy and never with start > end (documented contract). Intra-point order is compared as a multiset. Both readings of 'next later change' are accepted when a redundant table entry makes them differ.",
        "technique": "property-based testing with Hypothesis: stateful/model-based operation histories against a reference model, invariant after every step",
    },
    "C02": {
        "text": "Generated parts (0-several division changes, time-signature changes on and off bar lines and coinciding with division changes, simple/compound/irregular meters, pickups of every length, irregular bars, notated and musical beats with default and user-supplied beats per signature, switching back to notated) are built through the public API; quarter_map, beat_map, both inverse maps and quarter_duration_map are compared at every integer position and change point with exact Fraction arithmetic from the abstract spec (value, monotonicity, scalar/array agreement, inverse, origin at the end of a pickup). Exploration.",
        "design_ref": "DESIGN.md 4 C02",
        "note": "First time point, measure, time signature and divisions entry are at position 0 (what importers produce); values before the first signature are not judged; tolerance 1e-9 relative (forward), 1e-6 absolute (inverse). Cases where user-supplied musical beats make 'shorter than a bar' differ between quarters and beats are counted and not judged.",
        "technique": "property-based testing (Hypothesis) against an exact Fraction reference model of musical time",
    },
    "C03": {
        "text": "Generated scores (1-3 parts, nested part groups, 1-2 staves, 1-3 voices, unequal chords, mid-bar division/signature/clef changes, pickups, irregular bars, tie chains over bar lines, tuplets, grace runs, nested/overlapping slurs, articulations, stems, fermatas, fingering, unpitched notes, dynamics, wedges, words, tempo marks, repeats, endings) are saved; (A) an independent xml.etree walk of the bytes (divisions, backup/forward, chords, time-paired ties, grace notes) must denote exactly the abstract score's sounding notes in exact quarters; (B) the semantic fingerprint of the reloaded score (structure, measures, divisions, signatures, clefs, every note field, slurs, tuplets, directions, tempi, repeats, endings) must equal the original's, differences reported per field; (C) save(load(bytes)) must equal bytes, strictly for importer-obtained scores. Exploration.",
        "design_ref": "DESIGN.md 4 C03",
        "note": "Ties of one pitch never have intersecting measure ranges inside a part (MusicXML pairs ties by pitch); main notes of grace notes are pitched; equivalences: alter None=0, staff None=1, effective symbolic duration, ending numbers as strings, grace kind not compared; Page/System/beams not compared. Two open findings (designed behaviour): voice renumbering for polyphony inside a voice, first-page <print> added on the first re-export.",
        "technique": "property-based testing (Hypothesis): round trip with semantic fingerprint + independent MusicXML interpreter + byte fixpoint",
    },
    "C04": {
        "text": "Generated scores (1-3 parts sharing the metrical structure, divisions differing per part and inside a part incl. 3/5/6/7/12, tuplets, pickups, grace notes, tie chains, part groups, tempo marks) are exported with every part_voice_assign_mode x anacrusis behaviour x minimum_ppq x velocity; the file is read by an independent absolute-tick interpreter (mido iteration, FIFO pairing) and compared with exact integer ticks from Fraction arithmetic (ticks per beat = lcm doubled to the minimum, note multiset, velocity, track/channel assignment, tempo/key/time-signature meta events), then re-imported with load_score_midi (same mode: note multiset and partition into parts/voices) and load_performance_midi (file ticks). Exploration.",
        "design_ref": "DESIGN.md 4 C04",
        "note": "Equal pitches never overlap or touch across different (part, voice) pairs (precondition of the property for all modes); parts share the bar structure; time-signature meta events are not compared under anacrusis 'time_sig_change' (library rewrites them by design) and score import is skipped when that mode writes a 0/x signature; import modes 2 and 4: multiset only; tempo marks only in the first part.",
        "technique": "property-based testing (Hypothesis): round trip + independent MIDI interpreter + exact Fraction tick reference",
    },
    "C05": {
        "text": "Part.note_array under sampled subsets of all include_* options (division and signature changes, pickups, tie chains, grace notes, missing voice/staff, notated and musical beats) compared column by column with a table computed from the abstract score (exact div columns, float32 tolerance for quarter/beat columns, in-force key/time signature, metrical position, staff, grace type, divs_pq) and checked for (onset, pitch) ordering; Part.rest_array likewise incl. collapse; Score / part list / part group note arrays against the union with lcm rescaling, P%02d_ ids and empty parts; note_array_to_score on beat / div / both inputs compared as (onset, duration, pitch) multisets. Exploration.",
        "design_ref": "DESIGN.md 4 C05",
        "note": "Rows matched by id; score-level ordering judged on onset_beat (parts may have different pickups); divs_pq on parts with division changes may raise (documented); single-measure metrical columns not judged; lcm over all parts or over parts with notes accepted.",
        "technique": "property-based testing (Hypothesis) against a reference table computed from the abstract score with Fractions; inverse round trip",
    },
    "C06": {
        "text": "Performances (Performance / PerformedPart / list) generated in the tick domain (exact, near-half and exact-half tick positions, touching notes, shuffled lists, controls, programs, signatures, other meta events, any ppq/mpq, merging on save/load) are saved and re-loaded; three views are compared: the Fraction expectation, the written file read by an independent mido/Fraction interpreter, and the loaded objects (export and import judged separately). Arbitrary generated multi-track MIDI files with set_tempo events anywhere are loaded and compared with the interpreter: seconds by integrating the merged tick-sorted tempo map, next-off pairing incl. zero-velocity note-ons, ids in (onset, pitch, offset, channel, track) order. Exploration.",
        "design_ref": "DESIGN.md 4 C06",
        "note": "Track numbers may have gaps and tracks / parts may hold controls only (expected file track = rank of the number); notes of one key never overlap (touching allowed); exact .5 ties accept either tick; two set_tempo events at one tick only within one track; default program times not checked; end_of_track ignored.",
        "technique": "property-based testing (Hypothesis): three-way comparison with an independent MIDI interpreter and exact Fraction expectations",
    },
    "C07": {
        "text": "Every match-line class of versions 0.1.0-0.5.0 and 1.0.0 (74 kind x version cells, floors enforced) is built from generated field values, written, compared with an independently rendered text, parsed through the real dispatch, compared field by field and re-written (fixpoint); pre-1.0 lines are upgraded with to_v1 and must keep kind and content; accepted non-canonical spellings canonicalise in one round; FractionalSymbolicDuration string round trips and addition are exact below the 1024 bound; all 30 keys x spellings, time signatures, version and name helpers are enumerated exhaustively. Exploration + exhaustive tables.",
        "design_ref": "DESIGN.md 4 C07",
        "note": "Identifiers are letters/digits/underscore with optional -digits suffix; free text without brackets/parentheses/line breaks; alterations -2..2 (+-3 as accepted text); floats compared exactly when writable in the format, else within half a last decimal; atheris not used (optional).",
        "technique": "property-based testing (Hypothesis grammar strategies) + exhaustive enumeration, independent text renderer as oracle",
    },
    "C11": {
        "text": "add_measures on generated parts (1-3 signatures on/off the bar grid, any divisions incl. a change, existing measures anywhere incl. around a signature change, notated/musical beats) is compared with an interval model (tiling, bar length in force, existing measures untouched, numbers 1..n); tie_notes / find_tuplets / fill_rests / sanitize_part alone and in importer orders must keep the note array, put every pitched note inside one measure, keep tie chains contiguous and uniform and store only symbolic durations that evaluate to the numeric duration; estimate_symbolic_duration is enumerated exhaustively (quick 51,648 pairs; thorough divs 1..960 x dur 1..32*divs = 14,760,960 pairs); find_tie_split / order_splits return contiguous exact splits. Exploration + exhaustive estimator domain.",
        "design_ref": "DESIGN.md 4 C11",
        "note": "Bars before a late first signature not judged; rests added inside a measure containing a division change excluded; note: symbolic_duration getter always estimates, so split_note/find_tuplets are unreachable (listed in the module's ASSUMPTIONS).",
        "technique": "property-based testing (Hypothesis) against an exact interval/Fraction model + exhaustive enumeration of the estimator domain",
    },
    "C13": {
        "text": "compute_pianoroll on structured note arrays in any row order and every option combination is compared cell by cell with an independent exact rasteriser (shape, non-zero pattern, own velocity / max on collisions / 1 when binary, idx rows in input order) and metamorphically under row permutation; the pitch-class roll against the octave fold; pianoroll_to_notearray against run-length decoding and re-rasterisation. Exploration.",
        "design_ref": "DESIGN.md 4 C13",
        "note": "Times on grids k/(time_div*m), m odd, so frame rounding is never an exact .5 tie; column count with end_time plus time_margin and piano_range plus pitch_margin not demanded; velocities 1..127.",
        "technique": "property-based testing (Hypothesis): reference rasteriser, metamorphic row permutation, decode/encode round trip",
    },
    "C14": {
        "text": "Generated note lists (repeated/overlapping equal pitches across channels, zero-length, unsorted), control streams (pedal values around the threshold before/between/after notes, interleaved controllers, unsorted, occasional duplicate times), thresholds and ppq/mpq are built into PerformedPart; every sound_off is compared with an independent exact-arithmetic pedal model; re-assigned thresholds are compared with a fresh part and for monotonicity; note_array and from_note_array(note_array()) are checked with exact tick arithmetic; model-based histories (assign threshold, read, note_array, rebuild, append/clear controls) are checked after every step; Performance track renumbering must be injective per (part, track). Exploration.",
        "design_ref": "DESIGN.md 4 C14",
        "note": "Events exactly at a release accept both readings; duplicate pedal times and a pedal never released only get the weak invariants; duration_tick judged only when no pedal extends the note.",
        "technique": "property-based testing (Hypothesis): @given specs against a Fraction pedal model + stateful/model-based operation histories",
    },
    "C15": {
        "text": "Merging 2-4 generated parts (divisions equal/different/lcm above all, 1-3 voices, 1-2 staves, missing staves, rests, ties, grace notes, tuplets, slurs, directions) from lists, tuples, nested PartGroups and Scores under voice/staff/auto is compared with the abstract score: every note and rest exactly once at lcm-rescaled start/end with unchanged pitch and ties, voice/staff partition kept inside each input and disjoint between inputs, structure from the first part, merged note array and score-level note array equal to the Fraction reference; a container with a single part returns that very object. Exploration.",
        "design_ref": "DESIGN.md 4 C15",
        "note": "All parts share the bar structure in musical time, one divisions value per part; disjointness demanded for sounding notes only; auto mode judged on documented behaviour (unique numbers).",
        "technique": "property-based testing (Hypothesis) with derived-part generator and exact Fraction reference",
    },
    "C16": {
        "text": "All 7 steps x alterations -2..2 (naturals as 0 and None) x octaves 0..8 x 39 interval classes x both directions are transposed through transpose(Score) and compared with independent letter/MIDI arithmetic (29,484 points, exhaustive); transpose_note over its whole documented domain incl. rejection outside it (2,730 points, exhaustive); generated scores and bare parts with tie chains, chords and grace notes are transposed and transposed back, every pitched note judged by id, all other content by fingerprint, the argument by identity fingerprint. Exhaustive grid + exploration.",
        "design_ref": "DESIGN.md 4 C16",
        "note": "Judged where the correct result needs at most a double accidental; alter None treated as 0; only Score and Part arguments.",
        "technique": "exhaustive enumeration + property-based testing (Hypothesis), differential against diatonic arithmetic, fingerprint non-interference",
    },
    "C17": {
        "text": "For generated note arrays (score or performance units, any row order, simultaneous/overlapping/zero-length/duplicate notes): estimate_spelling sounds exactly the MIDI pitch with |alter| <= 2 independent of row order; estimate_voices (both modes) returns integers 1..k without gaps, chords together in chord mode; estimate_key (all profile options) returns a valid key name, invariant under octave shifts and duration rescaling, equivariant under transposition and equal to the best correlation of an independent Krumhansl-Schmuckler implementation; load_score_midi with estimation off/on yields exactly the file's (onset, pitch) pairs. Exploration.",
        "design_ref": "DESIGN.md 4 C17",
        "note": "Transposition/best-key judged when the top-two correlation gap exceeds 1e-9, arbitrary scale factors when it exceeds 1e-5; constant distributions not judged; MIDI files grid-aligned without self-overlap.",
        "technique": "property-based testing (Hypothesis): validity predicates, metamorphic relations, differential oracle against an own key-profile correlation",
    },
    "C09": {
        "text": "Bar-level structures from a grammar (plain, simple repeat, voltas [1][2] / [1,2][3] / three endings, nested repeats, D.C./D.S./fine/coda/to-coda marks in textbook and arbitrary arrangements, ties/slurs/tuplets across segment boundaries, division and signature changes inside repeats) are unfolded with every entry point (maximal, minimal, iter_unfolded_parts, make_score_variants, get_paths+new_part_from_path) x update_ids x ignore_leaps x Part/Score argument; an independent interpreter gives the exact maximal/minimal bar sequence whenever no da capo/dal segno is present and a permissive path predicate otherwise; every returned part is checked for length, one copy per note per visit (pitch, duration, voice, staff, -k ids, divisions in force), no brackets/jump marks left, time-point chain, closure of all references, 2^r variants for r simple repeats, equal fingerprint without repeats, untouched argument. Exploration.",
        "design_ref": "DESIGN.md 4 C09",
        "note": "Marks stand on bar lines; exact navigation semantics after a jump are not demanded; every call gets a freshly built part; 'all variants' policies only when the estimated number of paths is <= 1500; five open findings (Segment bookkeeping left in the argument; four defects of the leap/volta segment logic) mask their symptom kinds.",
        "technique": "property-based testing (Hypothesis grammar-based generation) against an independent unfolding interpreter + identity snapshot of the argument",
    },
    "C10": {
        "text": "Generated parts with 0-n time signatures (first one late, missing, or only the last kept), key signatures with all fifths/modes incl. a missing mode, clefs on 1-3 staves incl. staves without a clef and parts without any clef, regular/irregular measures, pickups, notated and musical beat mode; time_signature_map, key_signature_map, clef_map, measure_map, measure_number_map and metrical_position_map are queried at every integer position as one array and as scalars at all change points, bar lines and an even sample, and compared with 'latest element at or before t / first one before it / documented default' and with the measure extents computed from the abstract spec. Exploration.",
        "design_ref": "DESIGN.md 4 C10",
        "note": "Measures are contiguous from 0; pickup extent judged only with a time signature at 0 and no division change inside the first measure; metrical position of single-measure parts not judged (library documents 0 everywhere); clef line is an int as documented.",
        "technique": "property-based testing (Hypothesis) against an in-force lookup reference computed from the abstract score",
    },
    "C12": {
        "text": "Exhaustive enumeration of every finite conversion domain named by the property (spelling, MIDI, note names, keys, modes, clefs, symbolic durations, tuplets, tempo units, interval classes, table agreement, frequency) against integer/Fraction arithmetic, plus Hypothesis sampling of (ppq, mpq, time) for tick conversion with scalars and arrays of several dtypes. Enumerated parts are complete; sampled part is exploration.",
        "design_ref": "DESIGN.md 4 C12",
        "note": "Expected values are computed by arithmetic written in the check, not from partitura's tables. Exact .5 tick ties accept either neighbour; float32 input is judged at single precision.",
        "technique": "exhaustive enumeration + property-based testing (Hypothesis) against an arithmetic reference model",
    },
}
