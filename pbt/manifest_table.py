"""Single source for MANIFEST.json (tools/mkmanifest.py writes the JSON from this)."""

NOTES = (
    "Every check is `./check <Cxx> <tier>`: a replay pass over replays/<Cxx>/ followed by generated-input search "
    "(Hypothesis strategies / model-based operation histories / exhaustive enumeration) against explicit reference "
    "oracles, sharded over 16 processes, deterministic in (tree, tier, VERIF_SEED). exit 0 held, 1 VIOLATION, 2 harness error. "
    "Open findings are listed in KNOWN_FINDINGS.txt and printed as KNOWN-FINDING lines."
)

NOT_APPLICABLE = {}

CHECKS = {
    "C12": {
        "text": "Exhaustive enumeration of every finite conversion domain named by the property (spelling, MIDI, note names, keys, modes, clefs, symbolic durations, tuplets, tempo units, interval classes, table agreement, frequency) against integer/Fraction arithmetic, plus Hypothesis sampling of (ppq, mpq, time) for tick conversion with scalars and arrays of several dtypes. Enumerated parts are complete; sampled part is exploration.",
        "design_ref": "DESIGN.md 4 C12",
        "note": "Expected values are computed by arithmetic written in the check, not from partitura's tables. Exact .5 tick ties accept either neighbour; float32 input is judged at single precision.",
        "technique": "exhaustive enumeration + property-based testing (Hypothesis) against an arithmetic reference model",
    },
}
