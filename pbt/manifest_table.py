"""Single source for MANIFEST.json (tools/mkmanifest.py writes the JSON from this)."""

NOTES = (
    "Every check is `./check <Cxx> <tier>`: a replay pass over replays/<Cxx>/ followed by generated-input search "
    "(Hypothesis strategies / model-based operation histories / exhaustive enumeration) against explicit reference "
    "oracles, sharded over 16 processes, deterministic in (tree, tier, VERIF_SEED). exit 0 held, 1 VIOLATION, 2 harness error. "
    "Open findings are listed in KNOWN_FINDINGS.txt and printed as KNOWN-FINDING lines."
)

NOT_APPLICABLE = {}

CHECKS = {
    "C01": {
        "text": "Model-based testing of edit/query histories: generated sequences of add (start, end, both), complete, remove (start/end/both), set_quarter_duration, get_or_add_point and every query (iter_all with cls/start/end/include_subclasses/mode, iter_prev/iter_next, get_point, quarter_durations) over 55 timed-object classes are applied in lock-step to a Part and to a dict-based reference timeline; the complete structural invariant (ordering, links, listings, start/end identity, quarter in force, quarter map) is evaluated after every step, also after an exception. Exploration: thousands of shrunk-on-failure histories, no exhaustiveness claim.",
        "design_ref": "DESIGN.md 4 C01",
        "note": "Histories only add an object at an endpoint it does not occupy and never with start > end (documented contract). Intra-point order is compared as a multiset. Both readings of 'next later change' are accepted when a redundant table entry makes them differ.",
        "technique": "property-based testing with Hypothesis: stateful/model-based operation histories against a reference model, invariant after every step",
    },
    "C02": {
        "text": "Generated parts (0-several division changes, time-signature changes on and off bar lines and coinciding with division changes, simple/compound/irregular meters, pickups of every length, irregular bars, notated and musical beats with default and user-supplied beats per signature, switching back to notated) are built through the public API; quarter_map, beat_map, both inverse maps and quarter_duration_map are compared at every integer position and change point with exact Fraction arithmetic from the abstract spec (value, monotonicity, scalar/array agreement, inverse, origin at the end of a pickup). Exploration.",
        "design_ref": "DESIGN.md 4 C02",
        "note": "First time point, measure, time signature and divisions entry are at position 0 (what importers produce); values before the first signature are not judged; tolerance 1e-9 relative (forward), 1e-6 absolute (inverse). Cases where user-supplied musical beats make 'shorter than a bar' differ between quarters and beats are counted and not judged.",
        "technique": "property-based testing (Hypothesis) against an exact Fraction reference model of musical time",
    },
    "C10": {
        "text": "Generated parts with 0-n time signatures (first one late, missing, or only the last kept), key signatures with all fifths/modes incl. a missing mode, clefs on 1-3 staves incl. staves without a clef and parts without any clef, regular/irregular measures, pickups, notated and musical beat mode; time_signature_map, key_signature_map, clef_map, measure_map, measure_number_map and metrical_position_map are queried at every integer position as one array and as scalars at all change points, bar lines and an even sample, and compared with 'latest element at or before t / first one before it / documented default' and with the measure extents computed from the abstract spec. Exploration.",
        "design_ref": "DESIGN.md 4 C10",
        "note": "Measures are contiguous from 0; pickup extent judged only with a time signature at 0 and no division change inside the first measure; metrical position of single-measure parts not judged (library documents 0 everywhere); clef line is an int as documented.",
        "technique": "property-based testing (Hypothesis) against an in-force lookup reference computed from the abstract score",
    },
    "C12": {
        "text": "Exhaustive enumeration of every finite conversion domain named by the property (spelling, MIDI, note names, keys, modes, clefs, symbolic durations, tuplets, tempo units, interval classes, table agreement, frequency) against integer/Fraction arithmetic, plus Hypothesis sampling of (ppq, mpq, time) for tick conversion with scalars and arrays of several dtypes. Enumerated parts are complete; sampled part is exploration.",
        "design_ref": "DESIGN.md 4 C12",
        "note": "Expected values are computed by arithmetic written in the check, not from partitura's tables. Exact .5 tick ties accept either neighbour; float32 input is judged at single precision.",
        "technique": "exhaustive enumeration + property-based testing (Hypothesis) against an arithmetic reference model",
    },
}
